"""setup_cmd: parse every module with SANY (in parallel) and smoke-run one TLC instance."""
import glob
import os
import sys
from concurrent.futures import ThreadPoolExecutor

from harness import tlc


def main():
    mods = sorted(glob.glob(os.path.join(tlc.SPEC, "*.tla")) + glob.glob(os.path.join(tlc.SPEC, "*", "*.tla")))
    bad = []

    def one(m):
        try:
            tlc.sany(m)
            return None
        except tlc.TLCFailure as e:
            return (m, str(e))
    with ThreadPoolExecutor(8) as ex:
        for r in ex.map(one, mods):
            if r:
                bad.append(r)
    for m, e in bad:
        print("SANY FAILED", m, "\n", e[-1500:])
    consts = dict(D=2, Shapes={(2, 3)}, Ks={0, 1}, PairShapes={(2, 3)}, PairKs={0}, EmitCases=False)
    r = tlc.run("mc/MC_GroupAction.tla", tlc.make_cfg(constants=consts, invariants=["Laws"]), constants=consts, workers=4)
    print("setup: %d modules parsed, %d failed; smoke TLC run: %d distinct states, ok=%s" % (len(mods), len(bad), r.distinct, r.ok))
    import jax  # noqa: F401  (the replay side needs it)
    sys.exit(0 if (not bad and r.ok) else 1)


if __name__ == "__main__":
    main()
