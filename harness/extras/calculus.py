"""Extra: EquivCalculus.tla model-checked and bound to ml/layers.py (stand-alone run of what C06 / C08 embed).

usage: bin/extra calculus [--tier quick|thorough]      exit 0 / 2 (machinery); an unbound layer is reported, not a violation
"""
import json
import sys

from harness import core, equivcalc


def main(tier):
    chk = core.Check("XCALC", tier)
    graphs = equivcalc.run_mc(chk)
    if not graphs:
        return 2
    res = equivcalc.bind_all(graphs, tier)
    summ = equivcalc.summarise(res)
    for kind, d in sorted(summ.items()):
        print("%-12s bound for block types %s" % (kind, d["bound"]))
        for t, why in d["unbound"]:
            print("%-12s UNBOUND for %s: %s" % (kind, t, why))
    print("extra calculus tier=%s: MC states=%d, graphs=%d, bindings=%d" % (tier, chk.states, len(graphs), len(res)))
    return 0


if __name__ == "__main__":
    core.setup_repo_path()
    tier = sys.argv[sys.argv.index("--tier") + 1] if "--tier" in sys.argv else "quick"
    try:
        rc = main(tier)
    except Exception:
        import traceback
        traceback.print_exc()
        rc = 2
    sys.exit(rc)
