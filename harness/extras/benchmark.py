"""Extra (no listed property): ml.benchmark validated against Benchmark.tla.

MC_Benchmark explores the design exhaustively for small constants (BenchInv, termination, sharpness of the Return guard);
real `ml.benchmark` runs are recorded from OUTSIDE -- the data generator and the models are the caller's callables, so no hook
is needed -- and every recorded run is validated by Trace_Benchmark.  Keys are identified by their position in the split chain
of the caller's key (`rand_key, subkey = split(rand_key)`), data objects by identity, scores are distinct integers.

usage: bin/extra benchmark [--tier quick|thorough]      exit 0 accepted / 1 a recorded run is rejected / 2 machinery failure
"""
import itertools
import json
import os
import sys

import numpy as np

from harness import core, tlc, tracelib


def record(cfgrec, seed):
    """run the real ml.benchmark for one configuration; returns the trace"""
    import jax.random as jr
    import ginjax.ml as ml
    import ginjax.ml.training as training
    T, btype, bname, rng, names, mkw, Q = (cfgrec[k] for k in ("T", "btype", "bname", "range", "names", "mkw", "Q"))
    key0 = jr.PRNGKey(seed)
    chain, k = {}, key0
    for n in range(1, 4 + T * max(1, len(rng)) * (len(names) + 1) * 2):
        k, sub = jr.split(k)
        chain[np.asarray(jr.key_data(sub) if hasattr(jr, "key_data") else sub).tobytes()] = n
    keyno = lambda kk: chain.get(np.asarray(jr.key_data(kk) if hasattr(jr, "key_data") else kk).tobytes(), 0)
    events, datas, counter = [], [], itertools.count(1)

    def get_data(key, **kw):
        d = {"id": len(datas) + 1}
        datas.append(d)
        events.append({"ev": "GetData", "key": keyno(key), "kw": sorted([[a, int(b)] for a, b in kw.items()]), "id": d["id"]})
        return d

    def mk_model(mname):
        def model(data, key, runname, **kw):
            c = next(counter)
            res = [10 * c + q for q in range(Q)]
            did = next((d["id"] for d in datas if d is data), 0)
            events.append({"ev": "RunModel", "key": keyno(key), "data": did, "mname": mname, "runname": runname,
                           "kw": sorted([[a, int(b)] for a, b in kw.items()]), "res": res})
            return res if Q > 1 else res[0]
        return model
    kwdicts = [dict((a, b) for a, b in kws) for kws in mkw]
    before = json.dumps(kwdicts, sort_keys=True)
    models = [(nm, mk_model(nm), kwdicts[i]) for i, nm in enumerate(names)]
    consts = {"data": training.BENCHMARK_DATA, "model": training.BENCHMARK_MODEL, "none": training.BENCHMARK_NONE}
    import contextlib
    import io
    with contextlib.redirect_stdout(io.StringIO()):
        out = ml.benchmark(get_data, models, key0, bname, list(rng), consts[btype], num_trials=T, num_results=Q)
    out = np.asarray(out)
    vals = out.ravel()
    if not np.all(vals == np.rint(vals)):
        raise RuntimeError("non-integral table entry from integer scores")
    events.append({"ev": "Return", "shape": list(out.shape), "vals": [int(v) for v in vals],
                   "kwIntact": json.dumps(kwdicts, sort_keys=True) == before})
    return events


def configs(tier):
    out = []
    Ts = [1, 2, 3] if tier == "quick" else [0, 1, 2, 3, 4]
    ranges = [[], [5], [3, 7], [2, 4, 9]]
    namesets = [["a"], ["b", "c"], ["a", "b", "c"]] + ([[]] if tier == "thorough" else [])
    kwof = {"a": [], "b": [["width", 3], ["depth", 1]], "c": [["depth", 9]]}       # "depth" is also the benchmark's name: overridden
    for T in Ts:
        for bt in ("data", "model", "none"):
            for r in ranges:
                for ns in namesets:
                    for Q in (1, 2, 3):
                        if tier == "quick" and (T * max(1, len(r)) * len(ns) * Q > 24):
                            continue
                        out.append({"T": T, "btype": bt, "bname": "depth", "range": r, "names": ns, "mkw": [kwof[n] for n in ns], "Q": Q})
    return out


def main(tier):
    chk = core.Check("XBENCH", tier)
    consts = dict(MaxT=2, Ranges={(), (5,), (3, 7)}, NameSets={(), ("a",), ("b", "c"), ("a", "b", "c")}, Qs={1, 2}, Scores={1, 2})
    r = tlc.run("mc/MC_Benchmark.tla", tlc.make_cfg(constants=consts, specification="Spec", invariants=["Inv", "ReturnSharp"],
                                                    properties=["Terminates"]), constants=consts, workers=8, coverage=True, timeout=900)
    chk.add_tlc(r, vacuity_actions=("PickCfg", "DoGetData", "DoRunModel", "DoReturn"))
    if not r.ok:
        print("MC_Benchmark: %s violated" % r.violated)
        return 2
    traces = []
    for n, c in enumerate(configs(tier)):
        traces.append({"tid": n + 1, "cfg": c, "events": record(c, core.SEED + n)})
    verdicts = tracelib.validate(chk, "trace/Trace_Benchmark.tla", traces, workers=8)
    bad = 0
    for t in traces:
        v = verdicts[t["tid"]]
        if v[0] != "ACCEPT":
            bad += 1
            ev = t["events"][v[1] - 1] if v[1] - 1 < len(t["events"]) else None
            print("REJECTED benchmark run cfg=%s at event %d: %s\n   event: %s" % (json.dumps(t["cfg"]), v[1], v[2], json.dumps(ev)[:300]))
    print("extra benchmark tier=%s: MC states=%d, recorded runs=%d, accepted=%d, rejected=%d" % (tier, r.distinct, len(traces), len(traces) - bad, bad))
    return 1 if bad else 0


if __name__ == "__main__":
    core.setup_repo_path()
    tier = sys.argv[sys.argv.index("--tier") + 1] if "--tier" in sys.argv else "quick"
    try:
        rc = main(tier)
    except Exception:
        import traceback
        traceback.print_exc()
        rc = 2
    sys.exit(rc)
