"""Thin driver around TLC / SANY.

One function, `run`, used by every check in the three modes of DESIGN §2.2:

  MC     exhaustive model checking of a bounded instance (invariants / action properties)
  GEN    the same actions, cases emitted as `PrintT(<<"CASE", ToJson(rec)>>)` lines
  TRACE  validation of recorded implementation traces (`IOEnv.TRACE_FILE`)

The result object carries TLC's own statistics (states generated / distinct states), the
parsed CASE lines, every other PrintT tuple (`<<"TAG", ...>>`), the violated invariant if
any, and the per-action coverage counts when `coverage=True`.

Exit discipline (DESIGN §2.6): a TLC crash / parse error / timeout raises `TLCFailure`,
which the check runner turns into exit code 2 (machinery failure) -- never a VIOLATION.
"""
from __future__ import annotations

import json
import os
import re
import shutil
import subprocess
import time
import uuid
from dataclasses import dataclass, field

VERIF = os.path.dirname(os.path.dirname(os.path.abspath(__file__)))
SPEC = os.path.join(VERIF, "spec")
WORK = os.path.join(VERIF, ".work")
JAR = "/opt/veriftools/tla/tla2tools.jar"
CM = "/opt/veriftools/tla/CommunityModules-deps.jar"


class TLCFailure(RuntimeError):
    pass


@dataclass
class TLCResult:
    module: str
    ok: bool                      # finished, no invariant / property / assumption violated
    violated: str | None          # name of the violated invariant / property
    generated: int = 0
    distinct: int = 0
    depth: int = 0
    cases: list = field(default_factory=list)     # parsed JSON of every <<"CASE", json>> line
    tags: dict = field(default_factory=dict)      # other PrintT tuples  <<"TAG", v...>> -> list of raw strings
    coverage: dict = field(default_factory=dict)  # action name -> (count, distinct)
    wall_s: float = 0.0
    stdout: str = ""
    cfg: str = ""
    constants: dict = field(default_factory=dict)

    def stats(self):
        return {"module": self.module, "states_generated": self.generated,
                "distinct_states": self.distinct, "depth": self.depth,
                "wall_s": round(self.wall_s, 2), "constants": self.constants}


_CASE_RE = re.compile(r'^<<"([A-Z_]+)", (.*)>>$')


def _unquote(s: str) -> str:
    # TLC prints a string value with surrounding quotes and backslash-escaped quotes/backslashes
    assert s.startswith('"') and s.endswith('"'), s[:80]
    return s[1:-1].replace('\\"', '"').replace("\\\\", "\\")


class Raw(str):
    """a TLA+ expression passed through verbatim as a constant's definition"""


def tla_value(v) -> str:
    """Python value -> TLA+ expression (ints, bools, strs, lists -> tuples, sets, dicts -> records)."""
    if isinstance(v, Raw):
        return str(v)
    if isinstance(v, bool):
        return "TRUE" if v else "FALSE"
    if isinstance(v, int):
        return str(v) if v >= 0 else "(-%d)" % (-v)
    if isinstance(v, dict):
        return "[" + ", ".join("%s |-> %s" % (k, tla_value(x)) for k, x in v.items()) + "]"
    if isinstance(v, str):
        return '"%s"' % v
    if isinstance(v, (list, tuple)):
        return "<<" + ", ".join(tla_value(x) for x in v) + ">>"
    if isinstance(v, (set, frozenset)):
        return "{" + ", ".join(sorted(tla_value(x) for x in v)) + "}"
    raise TypeError(v)


def make_cfg(constants=None, invariants=(), properties=(), init="Init", next_="Next",
             specification=None, constraint=None, action_constraint=None, view=None,
             postcondition=None, deadlock=False, symmetry=None) -> str:
    lines = []
    if specification:
        lines.append("SPECIFICATION %s" % specification)
    else:
        lines += ["INIT %s" % init, "NEXT %s" % next_]
    for k, v in (constants or {}).items():
        lines.append("CONSTANT %s <- c_%s" % (k, k))
    for inv in invariants:
        lines.append("INVARIANT %s" % inv)
    for p in properties:
        lines.append("PROPERTY %s" % p)
    if constraint:
        lines.append("CONSTRAINT %s" % constraint)
    if action_constraint:
        lines.append("ACTION_CONSTRAINT %s" % action_constraint)
    if view:
        lines.append("VIEW %s" % view)
    if symmetry:
        lines.append("SYMMETRY %s" % symmetry)
    if postcondition:
        lines.append("POSTCONDITION %s" % postcondition)
    lines.append("CHECK_DEADLOCK %s" % ("TRUE" if deadlock else "FALSE"))
    return "\n".join(lines) + "\n"


def run(module_path: str, cfg: str, env: dict | None = None, workers: int | str = 16,
        simulate: dict | None = None, coverage: bool = False, timeout: int = 1800,
        depth_first: bool = False, constants: dict | None = None, heap: str = "8g",
        expect_violation: bool = False) -> TLCResult:
    """Run TLC on `module_path` (absolute, or relative to /verif/spec) with cfg text `cfg`."""
    if not os.path.isabs(module_path):
        module_path = os.path.join(SPEC, module_path)
    module = os.path.splitext(os.path.basename(module_path))[0]
    rid = "%s-%s" % (module, uuid.uuid4().hex[:8])
    wdir = os.path.join(WORK, rid)
    os.makedirs(wdir, exist_ok=True)
    try:
        # TLC wants module and cfg side by side.  cfg files cannot hold tuples or negative numbers,
        # so constants are *definitions* c_<Name> in a generated instance module that EXTENDS the
        # real one (cfg: CONSTANT Name <- c_Name).
        base = module
        module = base + "_inst"
        with open(os.path.join(wdir, module + ".tla"), "w") as f:
            f.write("---- MODULE %s ----\nEXTENDS %s\n" % (module, base))
            for k, v in (constants or {}).items():
                f.write("c_%s == %s\n" % (k, tla_value(v)))
            f.write("====\n")
        with open(os.path.join(wdir, module + ".cfg"), "w") as f:
            f.write(cfg)
        libs = os.pathsep.join([os.path.dirname(module_path), SPEC, os.path.join(SPEC, "mc"),
                                os.path.join(SPEC, "gen"), os.path.join(SPEC, "trace")])
        cmd = ["java", "-XX:+UseParallelGC", "-Xmx" + heap, "-Xss128m", "-DTLA-Library=" + libs]
        if depth_first:
            cmd.append("-Dtlc2.tool.queue.IStateQueue=StateDeque")
        cmd += ["-cp", JAR + ":" + CM, "tlc2.TLC", "-workers", str(workers),
                "-metadir", os.path.join(wdir, "meta"), "-noGenerateSpecTE"]
        if coverage:
            cmd += ["-coverage", "1"]
        if simulate:
            spec = ",".join("%s=%s" % kv for kv in simulate.items() if kv[0] not in ("depth", "seed"))
            cmd += ["-simulate", spec] if spec else ["-simulate"]
            if "depth" in simulate:
                cmd += ["-depth", str(simulate["depth"])]
            if "seed" in simulate:
                cmd += ["-seed", str(simulate["seed"])]
        cmd += ["-config", module + ".cfg", module + ".tla"]
        e = dict(os.environ)
        e.update({k: str(v) for k, v in (env or {}).items()})
        t0 = time.time()
        try:
            p = subprocess.run(cmd, cwd=wdir, env=e, capture_output=True, text=True, timeout=timeout)
        except subprocess.TimeoutExpired as ex:
            raise TLCFailure("TLC timeout after %ss on %s" % (timeout, module)) from ex
        wall = time.time() - t0
        out = p.stdout + p.stderr
        res = TLCResult(module=module, ok=False, violated=None, wall_s=wall, stdout=out, cfg=cfg,
                        constants=dict(constants or {}))
        for line in out.splitlines():
            m = _CASE_RE.match(line)
            if m:
                tag, rest = m.group(1), m.group(2)
                if tag == "CASE":
                    res.cases.append(json.loads(_unquote(rest)))
                else:
                    res.tags.setdefault(tag, []).append(rest)
                continue
            m = re.match(r"(\d+) states generated, (\d+) distinct states found", line)
            if m:
                res.generated, res.distinct = int(m.group(1)), int(m.group(2))
            m = re.match(r"The depth of the complete state graph search is (\d+)", line)
            if m:
                res.depth = int(m.group(1))
            m = re.match(r"Error: Invariant (\S+) is violated", line)
            if m:
                res.violated = m.group(1)
            m = re.match(r"Error: Action property (\S+) is violated", line)
            if m:
                res.violated = m.group(1)
            if "Temporal properties were violated" in line:
                res.violated = res.violated or "TemporalProperty"
            if "Assumption" in line and "is false" in line:
                res.violated = res.violated or "Assumption"
            if re.match(r"Error: The postcondition .* is violated|Error: Evaluating postcondition|Error: Postcondition", line) or "postcondition" in line.lower() and "violated" in line.lower():
                res.violated = res.violated or "Postcondition"
            if coverage:
                m = re.match(r"<(\w+) line \d+, col \d+ to line \d+, col \d+ of module (\w+)(?: \([\d ]+\))?>: (\d+):(\d+)", line)
                if m:
                    res.coverage[m.group(1)] = (int(m.group(3)), int(m.group(4)))
        if simulate and res.generated == 0:
            m = re.search(r"The number of states generated: (\d+)", out)
            if m:
                res.generated = res.distinct = int(m.group(1))
        finished = ("Model checking completed. No error has been found." in out
                    or "Finished in" in out and res.violated is None and p.returncode == 0)
        if res.violated is None and (p.returncode != 0 or not finished):
            # anything that is not a clean finish or a named violation is a machinery failure
            ol = out.splitlines()
            first = next((i for i, x in enumerate(ol) if x.startswith("Error") or "Exception" in x), max(0, len(ol) - 40))
            tail = "\n".join(ol[first:first + 40])
            raise TLCFailure("TLC failed on %s (rc=%s):\n%s" % (module, p.returncode, tail))
        res.ok = res.violated is None
        if res.violated and not expect_violation:
            # keep the run directory's stdout for diagnosis
            os.makedirs(os.path.join(VERIF, "replay"), exist_ok=True)
            with open(os.path.join(VERIF, "replay", rid + ".tlc.txt"), "w") as f:
                f.write(out)
        return res
    finally:
        shutil.rmtree(wdir, ignore_errors=True)


def sany(module_path: str) -> None:
    if not os.path.isabs(module_path):
        module_path = os.path.join(SPEC, module_path)
    libs = os.pathsep.join([SPEC, os.path.join(SPEC, "mc"), os.path.join(SPEC, "gen"),
                            os.path.join(SPEC, "trace")])
    p = subprocess.run(["java", "-DTLA-Library=" + libs, "-cp", JAR + ":" + CM, "tla2sany.SANY", module_path],
                       capture_output=True, text=True, cwd=os.path.dirname(module_path))
    out = p.stdout + p.stderr
    if p.returncode != 0 or "Semantic errors" in out or "Parse Error" in out or "Fatal" in out \
            or "*** Errors" in out or "Could not find module" in out:
        raise TLCFailure("SANY failed on %s:\n%s" % (module_path, out[-3000:]))


def run_many(jobs, parallel=4):
    """Run several TLC instances concurrently (each job is a dict of kwargs for `run`)."""
    from concurrent.futures import ThreadPoolExecutor
    with ThreadPoolExecutor(max_workers=parallel) as ex:
        futs = [ex.submit(run, **j) for j in jobs]
        return [f.result() for f in futs]
