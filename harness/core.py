"""Shared plumbing for every check: repo path selection, evidence files, known findings,
VIOLATION / KNOWN-FINDING lines, replay files, worker pools."""
from __future__ import annotations

import hashlib
import json
import os
import subprocess
import sys
import time

VERIF = os.path.dirname(os.path.dirname(os.path.abspath(__file__)))
REPO = os.environ.get("VERIF_REPO", "/repo")
SEED = int(os.environ.get("VERIF_SEED", "0") or 0)
GUARD = "GINJAX_VERIF"
EVID_DIR = os.environ.get("VERIF_EVIDENCE_DIR", os.path.join(VERIF, "evidence"))     # self-tests redirect these
REPLAY_DIR = os.environ.get("VERIF_REPLAY_DIR", os.path.join(VERIF, "replay"))


def setup_repo_path():
    """Always import ginjax from the tree under test (current working tree, not a snapshot)."""
    src = os.path.join(REPO, "src")
    if src in sys.path:
        sys.path.remove(src)
    sys.path.insert(0, src)
    os.environ[GUARD] = "1"
    os.environ.setdefault("JAX_PLATFORMS", "cpu")
    os.environ.setdefault("XLA_FLAGS", "--xla_cpu_multi_thread_eigen=false intra_op_parallelism_threads=1")
    os.environ.setdefault("WANDB_MODE", "disabled")
    os.environ.setdefault("MPLBACKEND", "Agg")


def repo_rev() -> str:
    try:
        r = subprocess.run(["git", "-C", REPO, "rev-parse", "--short", "HEAD"], capture_output=True, text=True)
        d = subprocess.run(["git", "-C", REPO, "status", "--porcelain", "--", "src"], capture_output=True, text=True)
        return r.stdout.strip() + ("+dirty" if d.stdout.strip() else "")
    except Exception:
        return "unknown"


def canon(obj) -> str:
    return json.dumps(obj, sort_keys=True, separators=(",", ":"), default=str)


def chash(obj) -> str:
    return hashlib.sha1(canon(obj).encode()).hexdigest()[:12]


# ----------------------------------------------------------------------------------------------
# known findings

def load_findings():
    p = os.path.join(VERIF, "known_findings.json")
    if not os.path.exists(p):
        return []
    with open(p) as f:
        return json.load(f)["findings"]


def match_finding(prop: str, key: dict):
    """A violation is 'known' iff a `known` entry of the same property has a key that is a sub-dict
    of the violation's key (every listed field equal).  `fixed` entries suppress nothing."""
    for fnd in load_findings():
        if fnd.get("property") != prop or fnd.get("status") != "known":
            continue
        k = fnd.get("key", {})
        if k and all(canon(key.get(a)) == canon(b) for a, b in k.items()):
            return fnd
    return None


# ----------------------------------------------------------------------------------------------
# check context

class Check:
    def __init__(self, prop: str, tier: str, level: str = "model_checking"):
        self.prop = prop
        self.tier = tier
        self.level = level
        self.t0 = time.time()
        self.tlc_runs = []          # TLCResult.stats()
        self.states = 0
        self.transitions = 0
        self.traces = 0             # behaviours replayed into the code + traces accepted by TLC
        self.evaluations = 0
        self.distinct = set()
        self.samples = []
        self.violations = []        # (key, replay path)
        self.violation_classes = {}
        self.violations_written = []
        self.known = []
        self.extra = {}
        self.assumptions = []
        self.rule = ""
        self.exhaustive = False
        self.coverage_actions = {}

    # --- TLC bookkeeping ---------------------------------------------------------------------
    def add_tlc(self, res, vacuity_actions=()):
        self.tlc_runs.append(res.stats())
        self.states += res.distinct
        self.transitions += res.generated
        for a, (cnt, dist) in res.coverage.items():
            c0 = self.coverage_actions.get(a, 0)
            self.coverage_actions[a] = c0 + cnt
        for a in vacuity_actions:
            if res.coverage and res.coverage.get(a, (0, 0))[0] == 0:
                raise RuntimeError("vacuity: action %s of %s was never taken" % (a, res.module))

    def spec_violation(self, res, what=""):
        """TLC found the *specification itself* (or a trace against it) violating an invariant."""
        path = self.write_replay({"kind": "tlc", "module": res.module, "violated": res.violated,
                                  "cfg": res.cfg, "constants": res.constants,
                                  "tail": res.stdout.splitlines()[-60:]}, tag=res.module)
        self.report({"kind": "tlc", "module": res.module, "violated": res.violated, "what": what}, path)

    # --- observation bookkeeping ----------------------------------------------------------------
    def case(self, key, nontrivial=True, sample=None):
        self.evaluations += 1
        if nontrivial:
            self.distinct.add(chash(key))
        if sample is not None and len(self.samples) < 4:
            self.samples.append(sample)

    def write_replay(self, payload: dict, tag="") -> str:
        d = os.path.join(REPLAY_DIR, self.prop)
        os.makedirs(d, exist_ok=True)
        payload = dict(payload)
        payload.update({"property": self.prop, "seed": SEED, "tier": self.tier, "repo_rev": repo_rev()})
        path = os.path.join(d, "%s%s.json" % ((tag + "-") if tag else "", chash(payload)))
        with open(path, "w") as f:
            json.dump(payload, f, indent=1, default=str)
        return path

    def report(self, key: dict, replay_path: str | None = None, payload: dict | None = None):
        """Record one violation; classify against known_findings.json."""
        fnd = match_finding(self.prop, key)
        if fnd is not None:
            if fnd["what"] not in [k["what"] for k in self.known]:
                self.known.append(fnd)
                print("KNOWN-FINDING: property=%s %s" % (self.prop, fnd["what"]), flush=True)
            return False
        # one replay file + VIOLATION line per *class* of violation (the key without its data fields),
        # at most 20 classes written out; everything is still counted.
        cls = chash({k: v for k, v in key.items() if k in ("entry", "what", "kind", "module", "violated", "op", "cls")})
        self.violation_classes.setdefault(cls, 0)
        self.violation_classes[cls] += 1
        if self.violation_classes[cls] <= 2 and len(self.violations_written) < 20:
            if replay_path is None:
                replay_path = self.write_replay({"key": key, **(payload or {})})
            print("VIOLATION property=%s replay=%s" % (self.prop, replay_path), flush=True)
            print("  detail: %s" % canon(key)[:600], flush=True)
            self.violations_written.append(replay_path)
        self.violations.append((key, replay_path))
        return True

    # --- evidence ------------------------------------------------------------------------------
    def finish(self) -> int:
        cov = {
            "states": self.states,
            "transitions": self.transitions,
            "traces_validated_against_impl": self.traces,
            "samples": self.samples or [{"note": "no sample recorded"}],
            "evaluations": self.evaluations,
            "distinct_nontrivial": len(self.distinct),
            "rule": self.rule,
            "exhaustive": self.exhaustive,
            "tlc_runs": self.tlc_runs,
            "action_coverage": self.coverage_actions,
            "known_findings_fired": [k["what"] for k in self.known],
            "repo_rev": repo_rev(),
            "worker_crashes_skipped": len(CRASHES),
        }
        cov.update(self.extra)
        ev = {
            "property_id": self.prop,
            "tier": self.tier,
            "seed": SEED,
            "level": self.level,
            "coverage": cov,
            "assumptions": self.assumptions,
            "wall_s": round(time.time() - self.t0, 2),
            "violations": len(self.violations),
        }
        os.makedirs(EVID_DIR, exist_ok=True)
        with open(os.path.join(EVID_DIR, self.prop + ".json"), "w") as f:
            json.dump(ev, f, indent=1, default=str)
        print("%s tier=%s: states=%d transitions=%d replayed/validated=%d evaluations=%d distinct=%d violations=%d known=%d wall=%.1fs"
              % (self.prop, self.tier, self.states, self.transitions, self.traces, self.evaluations,
                 len(self.distinct), len(self.violations), len(self.known), time.time() - self.t0), flush=True)
        return 1 if self.violations else 0


# ----------------------------------------------------------------------------------------------
# process pool for JAX-side replay (each worker imports jax once)

def _pool_init():
    setup_repo_path()


CRASHES = []          # items whose worker process died (e.g. an XLA compiler CHECK failure): skipped, reported in evidence


import contextlib


@contextlib.contextmanager
def host_devices(n=4):
    """Worker processes spawned inside this block see `n` XLA host-platform (CPU) devices, so that a pmap over several
    devices is a real one.  (The flag must come first: XLA stops parsing XLA_FLAGS at the first token it does not know.)"""
    old = os.environ.get("XLA_FLAGS")
    os.environ["XLA_FLAGS"] = "--xla_force_host_platform_device_count=%d" % n + ((" " + old) if old else "")
    try:
        yield
    finally:
        if old is None:
            del os.environ["XLA_FLAGS"]
        else:
            os.environ["XLA_FLAGS"] = old


def pmap(fn, items, procs=None, chunksize=1, crash_value=([], 0), split=None):
    """Map `fn` over items in spawned worker processes (fork is unsafe once jax is imported).

    A worker that dies (XLA aborts the process on some compiler CHECK failures) must neither hang the check nor be
    mistaken for a violation: the pool is rebuilt, unfinished items are re-run one per fresh process, and an item that
    kills its process again is skipped -- recorded in CRASHES and given `crash_value`."""
    import multiprocessing as mp
    from concurrent.futures import ProcessPoolExecutor
    from concurrent.futures.process import BrokenProcessPool
    items = list(items)
    if not items:
        return []
    procs = min(procs or int(os.environ.get("VERIF_PROCS", "16")), len(items))
    ctx = mp.get_context("spawn")
    results = [None] * len(items)
    done = [False] * len(items)
    try:
        with ProcessPoolExecutor(procs, mp_context=ctx, initializer=_pool_init) as ex:
            futs = {i: ex.submit(fn, it) for i, it in enumerate(items)}
            for i, f in futs.items():
                results[i] = f.result()
                done[i] = True
    except BrokenProcessPool:
        pass
    todo = [i for i in range(len(items)) if not done[i]]
    for i in todo:                      # isolate: one fresh process per unfinished item
        try:
            with ProcessPoolExecutor(1, mp_context=ctx, initializer=_pool_init) as ex:
                results[i] = ex.submit(fn, items[i]).result()
        except BrokenProcessPool:
            parts = split(items[i]) if split else []
            if len(parts) > 1:          # a chunk: isolate the crashing element, keep the rest ((fails, n) convention)
                sub = pmap(fn, parts, procs=1, crash_value=crash_value, split=None)
                results[i] = (sum((r[0] for r in sub), []), sum(r[1] for r in sub))
                continue
            CRASHES.append(repr(items[i])[:300])
            print("WORKER-CRASH (skipped, not a violation): %s" % repr(items[i])[:200], flush=True)
            results[i] = crash_value
    return results


def require_ops(behaviours, names, what="operation"):
    """vacuity guard for runs without TLC coverage statistics: every listed operation occurs in some emitted behaviour"""
    seen = {st["op"] for h in behaviours for st in h}
    missing = sorted(set(names) - seen)
    if missing:
        raise RuntimeError("vacuity: %s never exercised: %s" % (what, missing))


def shards(items, n):
    items = list(items)
    out = [items[i::n] for i in range(n)]
    return [s for s in out if s]
