"""Recorder for real executions of ginjax.ml.train (code -> spec direction, DESIGN 2.4).

No hook lives inside ginjax: the linearisation points are observable from outside --
  * the stopping condition is supplied by the caller: we pass a logging proxy around the real one;
  * `get_batches` and `train_step` are looked up as module globals by `train`: the recorder swaps the
    module attributes for wrappers for the duration of the run (harness-level, restored in `finally`);
  * the data carries its own sample index as value, so indices are read back from what the code returns.
Events follow spec/TrainLoop.tla: StopCheck, MakeBatches, ValBatches, TrainStep, Return (+ CutOff when the
run had to be cut off because it did not stop).
"""
import numpy as np

VAL_OFFSET = 1000


class CutOff(Exception):
    pass


def _idx_of(block, batch_size):
    a = np.asarray(block)
    a = a.reshape((batch_size, -1))
    v = a[:, 0]
    if not np.all(a == v[:, None]):
        return None, False                       # a sample's data was mixed with another's
    return [int(round(float(x))) for x in v], True


class Recorder:
    def __init__(self, max_epochs=50, scripted=True, bank_of=None):
        self.events = []
        self.versions = {}          # id(model) -> version
        self.keep = []              # keep models alive so ids stay unique
        self.max_epochs = max_epochs
        self.scripted = scripted
        self.bank_of = bank_of      # model -> list of numpy arrays (invariant filter leaves), or None
        self.harness_errors = []
        self.notes = []

    def version(self, model):
        return self.versions.get(id(model), -1)

    def register(self, model, v):
        self.versions[id(model)] = v
        self.keep.append(model)

    # ---- stopping-condition proxy -------------------------------------------------------------
    def proxy(self, inner):
        rec = self

        class LoggingStop(type(inner).__mro__[-2]):        # StopCondition base
            def __init__(self):
                self.inner = inner
                self.verbose = 0

            @property
            def best_model(self):
                return inner.best_model

            @best_model.setter
            def best_model(self, m):
                inner.best_model = m

            def stop(self, model, current_epoch, train_loss, val_loss, epoch_time):
                ret = inner.stop(model, current_epoch, train_loss, val_loss, epoch_time)
                rec.events.append({
                    "ev": "StopCheck", "epoch": int(current_epoch), "model": rec.version(model),
                    "tlNone": train_loss is None, "tl": rec._loss_int(train_loss),
                    "vlNone": val_loss is None, "vl": rec._loss_int(val_loss),
                    "ret": bool(ret), "best": rec.version(inner.best_model),
                    "repr": type(train_loss).__name__})
                if not ret and current_epoch >= rec.max_epochs:
                    raise CutOff()
                return ret
        return LoggingStop()

    def _loss_int(self, loss):
        if loss is None:
            return 0
        f = float(loss)
        if not self.scripted:
            return 0
        if abs(f - round(f)) > 1e-5:
            # every scripted step loss of an epoch is the same integer, so a non-integral epoch loss is an observation about
            # the code (steps skipped / doubled, a wrong mean), not a harness error: logged as -1, which no script contains,
            # and rejected by the trace specification's scripted-loss guard
            self.notes.append("scripted loss is not integral: %r" % f)
            return -1
        return int(round(f))

    # ---- module-attribute wrappers -------------------------------------------------------------
    def run(self, train_kwargs):
        """Run ml.train(**train_kwargs) under observation; returns the result tuple or None on cut-off."""
        import ginjax.ml.training as T
        real_gb, real_ts = T.get_batches, T.train_step
        rec = self

        def get_batches(multi_images, batch_size, rand_key, devices=None):
            out = real_gb(multi_images, batch_size, rand_key, devices)
            obs, is_val = [], False
            for mi_i, blist in enumerate(out):
                for b_i, mi in enumerate(blist):
                    for t_i, (key, block) in enumerate(mi.items()):
                        idx, clean = _idx_of(block, batch_size)
                        if idx is None:
                            idx = [-1] * batch_size
                        if idx and idx[0] >= VAL_OFFSET:
                            is_val = True
                            idx = [x - VAL_OFFSET for x in idx]
                        obs.append({"mi": mi_i + 1, "type": list(key), "batch": b_i + 1, "idx": idx})
            rec.events.append({"ev": "ValBatches" if is_val else "MakeBatches", "obs": obs, "keyed": rand_key is not None})
            return out

        def train_step(map_and_loss, model, optim, opt_state, x, y, aux_data=None):
            bsz = int(np.prod(next(iter(x.values())).shape[:2]))
            xi = [_idx_of(b, bsz)[0] or [-1] * bsz for b in x.values()]
            yi = [_idx_of(b, bsz)[0] or [-1] * bsz for b in y.values()]
            vin = rec.version(model)
            bank_before = rec.bank_of(model) if rec.bank_of else None
            res = real_ts(map_and_loss, model, optim, opt_state, x, y, aux_data)
            new_model = res[0]
            rec.register(new_model, vin + 1 if vin >= 0 else -1)
            bank = "same"
            if bank_before is not None:
                bank = bank_class(bank_before, rec.bank_of(new_model))
            rec.events.append({"ev": "TrainStep", "x": xi, "y": yi, "vin": vin, "vout": rec.version(new_model), "bank": bank})
            return res

        self.register(train_kwargs["model"], 0)
        inner = train_kwargs["stop_condition"]
        kw = dict(train_kwargs, stop_condition=self.proxy(inner))
        T.get_batches, T.train_step = get_batches, train_step
        try:
            res = T.train(**kw)
            self.events.append({"ev": "Return", "model": self.version(res[0])})
            return res
        except CutOff:
            self.events.append({"ev": "CutOff"})
            return None
        finally:
            T.get_batches, T.train_step = real_gb, real_ts


def bank_class(before, after):
    """'same' if every leaf is bit-identical; 'scaled' if all leaves are a common positive multiple;
    else 'changed'."""
    if all(a.shape == b.shape and np.array_equal(a, b) for a, b in zip(before, after)):
        return "same"
    ratios = []
    for a, b in zip(before, after):
        nz = np.abs(a) > 1e-12
        if a.shape != b.shape or np.abs(b[~nz]).max(initial=0) > 1e-7:
            return "changed"
        if nz.any():
            r = b[nz] / a[nz]
            ratios.append(r)
    r = np.concatenate([x.ravel() for x in ratios]) if ratios else np.ones(1)
    if np.abs(r - r[0]).max() <= 1e-5 * abs(r[0]) and r[0] > 0:
        return "scaled"
    return "changed"


# ------------------------------------------------------------------------------------------------
# the scripted-loss model: a step counter advanced by SGD(lr=1); loss value = table[step]

def make_scripted(train_table, val_table=None):
    import equinox as eqx
    import jax
    import jax.numpy as jnp

    class Counter(eqx.Module):
        theta: jax.Array

        def __call__(self, x, aux_data=None):
            return x, aux_data

    tt = jnp.asarray(train_table, dtype=jnp.float32)
    tv = jnp.asarray(val_table if val_table is not None else train_table, dtype=jnp.float32)

    def map_and_loss(model, x, y, aux_data):
        th = jax.lax.stop_gradient(model.theta)
        i = jnp.clip(jnp.rint(th).astype(int), 0, len(tt) - 1)
        iv = jnp.clip(jnp.rint(th).astype(int), 0, len(tv) - 1)
        first = next(iter(x.values())).reshape(-1)[0]
        val = jnp.where(first >= VAL_OFFSET, tv[iv], tt[i])
        return val - (model.theta - th), aux_data          # value = table entry, d/dtheta = -1

    return Counter(jnp.zeros(())), map_and_loss


def token_dataset(L, D=2, N=2, offset=0, types_x=((0, 0), (1, 0)), types_y=((0, 0), (0, 1), (1, 0))):
    """Every entry of sample i holds the value offset+i, for every tensor type."""
    import jax.numpy as jnp
    import ginjax.geometric as geom

    def mk(types):
        data = {}
        for ci, (k, p) in enumerate(types):
            shp = (L, 1 + ci) + (N,) * D + (D,) * k
            a = np.broadcast_to((np.arange(L, dtype=np.float32) + offset).reshape((L,) + (1,) * (len(shp) - 1)), shp)
            data[(k, p)] = jnp.asarray(np.ascontiguousarray(a))
        return geom.MultiImage(data, D, True)
    return mk(types_x), mk(types_y)
