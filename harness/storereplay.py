"""Replay of MultiImageStore.tla behaviours into real ginjax MultiImage objects (spec -> code).

Every step of a behaviour is one public API call; after it the full projected abstract state of the affected
object(s) -- storage order, leading shapes, spatial dims, D, torus flags, every value -- is compared with the
snapshot the specification recorded for that step.  Exceptions are observations: a step the spec marks
`rejected` must raise, every other step must not.
"""
import numpy as np


def proj(mi):
    D = mi.D
    order = [list(k) for k in mi.keys()]
    leads, vals = [], []
    for (k, p), blk in mi.items():
        a = np.asarray(blk)
        leads.append(list(a.shape[: a.ndim - (D + k)]))
        vals.append(a.ravel().tolist())
    dims = list(mi.get_spatial_dims())
    return {"d": D, "dims": dims, "torus": [bool(t) for t in mi.is_torus], "order": order, "leads": leads, "vals": vals}


def diff(snap, mi, approx=False, strict_order=False):
    """first difference between a spec snapshot and a real object, or None.  Blocks are compared BY TYPE; the
    storage order itself is compared only with strict_order (it is what C20 talks about, not C12-C14)."""
    p = proj(mi)
    if p["d"] != snap["d"]:
        return "D: expected %s got %s" % (snap["d"], p["d"])
    if p["torus"] != [bool(t) for t in snap["torus"]]:
        return "is_torus: expected %s got %s" % (snap["torus"], p["torus"])
    if p["order"] != snap["order"]:
        if sorted(map(tuple, p["order"])) != sorted(map(tuple, snap["order"])):
            return "type set: expected %s got %s" % (snap["order"], p["order"])
        if strict_order:
            return "storage order: expected %s got %s" % (snap["order"], p["order"])
    if snap["order"] and p["dims"] != snap["dims"]:
        return "spatial dims: expected %s got %s" % (snap["dims"], p["dims"])
    for i, t in enumerate(snap["order"]):
        j = p["order"].index(t)
        if p["leads"][j] != snap["leads"][i]:
            return "leading shape of %s: expected %s got %s" % (t, snap["leads"][i], p["leads"][j])
        e, g = np.asarray(snap["vals"][i], dtype=np.float64), np.asarray(p["vals"][j], dtype=np.float64)
        if e.shape != g.shape:
            return "size of block %s: expected %d got %d" % (t, e.size, g.size)
        bad = ~np.isclose(g, e, rtol=1e-6, atol=1e-6) if approx else (g != e)
        if bad.any():
            j = int(np.argmax(bad))
            return "values of block %s: entry %d expected %s got %s" % (t, j, e[j], g[j])
    return None


def build(snap, geom, jnp, how):
    D = snap["d"]
    torus = tuple(bool(t) for t in snap["torus"])
    arrs = []
    for t, lead, val in zip(snap["order"], snap["leads"], snap["vals"]):
        shp = tuple(lead) + tuple(snap["dims"]) + (D,) * t[0]
        arrs.append(((t[0], t[1]), jnp.asarray(np.array(val, dtype=np.float32).reshape(shp))))
    if how == "New":
        return geom.MultiImage({k: a for k, a in arrs}, D, torus)
    mi = geom.MultiImage({}, D, torus)
    for (k, p), a in arrs:
        mi.append(k, p, a)
    return mi


def replay_behaviour(hist, geom, jax, jnp):
    """returns None if the code follows the behaviour, else a dict describing the first divergence"""
    objs = {}
    dev = jax.devices()[0]
    for si, st in enumerate(hist):
        op, x = st["op"], st["x"]
        after = st["after"]

        def bad(what):
            return {"step": si + 1, "op": op, "what": what, "args": {k: v for k, v in st.items() if k not in ("after", "after2", "mid", "vec", "img1")}}
        try:
            approx = False
            if op in ("New", "BuildAppend"):
                objs[x] = build(after, geom, jnp, op)
            elif op == "Copy":
                objs[st["y"]] = objs[x].copy()
                d = diff(after, objs[st["y"]])
                if d:
                    return bad("copy: " + d)
            elif op == "Rebuild":
                m = objs[x]
                objs[st["y"]] = geom.MultiImage({tuple(t): m[tuple(srct)] for t, srct in zip(after["order"], st["src"])}, m.D, m.is_torus)
                d = diff(after, objs[st["y"]])
                if d:
                    return bad("rebuild: " + d)
                continue                      # `after` is the new object's state; the source is untouched
            elif op == "RoundTrip":
                m = objs[x]
                if st["how"] == "jit":
                    objs[x] = jax.jit(lambda q: q)(m)
                elif st["how"] == "vmap":
                    objs[x] = jax.vmap(lambda q: q)(m)
                else:
                    leaves, tree = jax.tree_util.tree_flatten(m)
                    objs[x] = jax.tree_util.tree_unflatten(tree, leaves)
            elif op == "ViaVector":
                v = objs[x].to_vector()
                # "the natural way": concatenation of the blocks in the object's own storage order
                want = [float(u) for k in objs[x].keys() for u in after["vals"][after["order"].index(list(k))]]
                if np.asarray(v).tolist() != want:
                    return bad("to_vector differs from the storage-order concatenation")
                objs[x] = geom.MultiImage.from_vector(v, objs[x])
            elif op == "Concat":
                objs[x] = objs[x].concat(objs[st["y"]], axis=st["ax"] - 1)
            elif op == "Split":
                sig = tuple(((t[0], t[1]), n) for t, n in st["sig"])
                arg = sig if si % 2 == 0 else {k: n for k, n in sig}
                a, b = objs[x].concat_inverse(arg, axis=st["ax"] - 1)
                objs[x], objs[st["y"]] = a, b
                d = diff(st["after2"], b)
                if d:
                    return bad("second part: " + d)
            elif op == "Expand":
                objs[x] = objs[x].expand(st["ax"] - 1, st["size"])
            elif op == "CombineAxes":
                objs[x] = objs[x].combine_axes((st["a1"] - 1, st["a1"]))
            elif op == "MergeAxes":
                objs[x] = objs[x].merge_axes([st["a1"] - 1, st["a1"]])
            elif op == "Pmap":
                objs[x] = objs[x].reshape_pmap([dev] * st["n"])
            elif op == "Subset":
                idxs = st["idxs"]
                if len(idxs) == 1 and si % 2 == 0:
                    objs[x] = objs[x].get_one(idxs[0])
                else:
                    objs[x] = objs[x].get_subset(jnp.array(idxs))
            elif op == "ScalarRT":
                s = objs[x].to_scalar_multi_image()
                d = diff(st["mid"], s)
                if d:
                    return bad("to_scalar_multi_image: " + d)
                layout = tuple(((t[0], t[1]), c) for t, c in st["layout"])
                # the same round trip as the library wraps it around a plain array model (C20, conventional mode)
                import ginjax.ml  # noqa: F401
                import ginjax.models as gmodels
                wrapped, _ = gmodels.ModelWrapper(objs[x].D, (lambda a: a), geom.Signature(layout), objs[x].is_torus)(objs[x])
                d = diff(after, wrapped)
                if d:
                    return bad("ModelWrapper(identity): " + d)
                objs[x] = s.from_scalar_multi_image(layout)
            elif op == "ToScalar":
                objs[x] = objs[x].to_scalar_multi_image()
            elif op == "ImagesRT":
                imgs = objs[x].to_images()
                if len(imgs) != st["nimgs"]:
                    return bad("to_images returned %d images, expected %d" % (len(imgs), st["nimgs"]))
                i1 = st["img1"]
                if (imgs[0].k, imgs[0].parity) != (i1["k"], i1["p"]) or np.asarray(imgs[0].data).ravel().tolist() != [float(v) for v in i1["val"]] \
                        or tuple(imgs[0].spatial_dims) != tuple(i1["dims"]):
                    return bad("first image of to_images differs")
                objs[x] = geom.MultiImage.from_images(imgs)
            elif op in ("Add", "Sub"):
                y = st["y"]
                try:
                    r = objs[x] + objs[y] if op == "Add" else objs[x] - objs[y]
                    raised = False
                except AssertionError:
                    raised = True
                if st["rejected"] != raised:
                    return bad("operands with different type sets must be rejected" if st["rejected"] else "operands with equal type sets were rejected")
                if not raised:
                    objs[x] = r
            elif op == "Mul":
                objs[x] = objs[x] * st["c"] if si % 2 == 0 else objs[x] * float(st["c"])
            elif op == "DivInv":
                objs[x] = objs[x] / (1.0 / st["c"])
            elif op == "Eq":
                res = bool(objs[x] == objs[st["y"]])
                if res != st["result"]:
                    return bad("== returned %s, specification says %s" % (res, st["result"]))
            elif op == "Act":
                objs[x] = objs[x].times_group_element(np.array(st["mat"]))
            elif op == "NormSq":
                n = objs[x].norm()
                sq = geom.MultiImage({k: v * v for k, v in n.items()}, n.D, n.is_torus)
                d = diff(after, sq, approx=True)
                if d:
                    return bad(d)
                # the squared norm of an integer tensor is an integer: continue from the exact value (the float32
                # sqrt-then-square above was compared to 1e-6 first)
                objs[x] = geom.MultiImage({k: jnp.rint(v) for k, v in sq.items()}, n.D, n.is_torus)
            elif op == "Loss":
                r = check_losses(st, objs[x], objs[st["y"]], si)
                if r:
                    return bad(r)
            elif op == "AvgPool":
                pooled = objs[x].average_pool(st["q"])
                # the spec carries the numerator; the denominator q^D is exact for powers of two
                objs[x] = geom.MultiImage({k: v * float(st["den"]) for k, v in pooled.items()}, pooled.D, pooled.is_torus)
                approx = (st["den"] & (st["den"] - 1)) != 0
            elif op == "Component":
                comp = st["comp"] if (st["n"] == 1 and si % 2 == 0) else slice(st["comp"], st["comp"] + st["n"])
                if st["batched"]:
                    objs[x] = objs[x].batch_get_component(comp, st["T"])
                else:
                    objs[x] = objs[x].get_component(comp, st["T"])
            else:
                raise RuntimeError("unknown op " + op)
        except RuntimeError:
            raise
        except Exception as ex:
            return bad("raised %s: %s" % (type(ex).__name__, str(ex)[:200]))
        d = diff(after, objs[x], approx=approx)
        if d:
            return bad(d)
    return None


def geom_like(m, data):
    """a multi-image with m's dimension / boundary flags and the given blocks (same storage order)"""
    return m.__class__(data, m.D, m.is_torus)


def check_losses(st, a, b, si):
    """compare the real losses with the spec's integer numerators / declared denominators"""
    import jax.numpy as jnp
    import ginjax.ml as ml
    npix, B, S = st["npix"], st["batch"], st["S"]
    per = np.array(st["smse"], dtype=np.float64) / npix
    close = lambda got, want, rt=2e-6: np.shape(got) == np.shape(want) and np.allclose(np.asarray(got, dtype=np.float64), want, rtol=rt, atol=1e-7)
    if not close(ml.smse_loss(a, b), per.mean()):
        return "smse_loss(mean): expected %r got %r" % (per.mean(), float(ml.smse_loss(a, b)))
    if not close(ml.smse_loss(a, b, reduce=None), per):
        return "smse_loss(reduce=None): expected %s got %s" % (per.tolist(), np.asarray(ml.smse_loss(a, b, reduce=None)).tolist())
    steps = np.array(st["steps"], dtype=np.float64) / npix
    if not close(ml.timestep_smse_loss(a, b, S, reduce=None), steps):
        return "timestep_smse_loss(reduce=None): expected %s got %s" % (steps.tolist(), np.asarray(ml.timestep_smse_loss(a, b, S, reduce=None)).tolist())
    if not close(ml.timestep_smse_loss(a, b, S), steps.mean(axis=0)):
        return "timestep_smse_loss(mean)"
    rows = steps.sum(axis=1)
    if np.sum(rows == rows.max()) == 1:          # arg-max well defined
        if not close(ml.timestep_smse_loss(a, b, S, reduce="max"), steps[int(np.argmax(rows))]):
            return "timestep_smse_loss(max)"
    # reduce="max" is only pinned down when different batch entries are worst at different steps (an element-wise maximum over
    # the batch coincides with the worst entry's row otherwise): rescale the error of entry i at step s by an integer w[i][s] --
    # the per-step numerators scale by w^2 exactly -- so that entry 0 / 1 are worst at single steps and the last entry in total
    if B >= 2 and S >= 2 and steps.min() > 0:
        W = np.full((B, S), 3.0)
        W[0, :] = 1.0
        W[0, 0] = 4.0
        if B >= 3:
            W[1, :] = 1.0
            W[1, 1] = 4.0
        b2 = geom_like(a, {t: a[t] + jnp.asarray(W[:, np.arange(a[t].shape[1]) % S].reshape(a[t].shape[:2] + (1,) * (a[t].ndim - 2)),
                                                   dtype=a[t].dtype) * (b[t] - a[t]) for t in a.keys()})
        steps2 = steps * W ** 2
        if not close(ml.timestep_smse_loss(a, b2, S, reduce=None), steps2, rt=1e-5):
            return "timestep_smse_loss(reduce=None) on step-wise rescaled errors"
        rows2 = steps2.sum(axis=1)
        if np.sum(rows2 == rows2.max()) == 1:
            want2 = steps2[int(np.argmax(rows2))]
            st["_max_discriminating"] = bool(np.any(steps2.max(axis=0) != want2))
            if not close(ml.timestep_smse_loss(a, b2, S, reduce="max"), want2, rt=1e-5):
                return "timestep_smse_loss(max): not the per-step losses of the batch entry with the largest total"
    for eps in (2.0 ** -10, None):
        e32 = np.float64(np.float32(1e-5 if eps is None else eps))
        want = np.mean([sum(n / (d + e32) for n, d in terms) / npix for terms in st["norm"]])
        got = ml.normalized_smse_loss(a, b) if eps is None else ml.normalized_smse_loss(a, b, eps)
        if not close(got, want, rt=2e-5):
            return "normalized_smse_loss(eps=%s): expected %r got %r" % (eps, want, float(got))
    if float(ml.smse_loss(a, a)) != 0.0 or float(ml.normalized_smse_loss(b, b)) != 0.0:
        return "loss of equal arguments is not zero"
    if min(float(ml.smse_loss(a, b)), float(ml.normalized_smse_loss(a, b))) < 0:
        return "negative loss"
    # the same group element applied to both arguments leaves every loss unchanged (on the code)
    import ginjax.geometric as geom
    D = a.D
    ops = geom.make_all_operators(D)
    gg = ops[(7 * si + 3) % len(ops)]
    ga, gb = a.times_group_element(gg), b.times_group_element(gg)
    for nm, f in (("smse_loss", lambda u, v: ml.smse_loss(u, v, reduce=None)), ("timestep_smse_loss", lambda u, v: ml.timestep_smse_loss(u, v, S, reduce=None)),
                  ("normalized_smse_loss", lambda u, v: ml.normalized_smse_loss(u, v))):
        if not close(f(ga, gb), np.asarray(f(a, b), dtype=np.float64), rt=2e-5):
            return "%s changes when the same group element is applied to both arguments" % nm
    return None


def replay_chunk(chunk):
    import jax
    import jax.numpy as jnp
    import ginjax.geometric as geom
    fails = []
    for hist in chunk:
        r = replay_behaviour(hist, geom, jax, jnp)
        if r is not None:
            fails.append({"key": {"op": r["op"], "what": r["what"].split(":")[0], "detail": r["what"], "step": r["step"],
                                  "ops": [s["op"] for s in hist], "args": r["args"],
                                  "orders": [s["after"]["order"] for s in hist]}, "hist": hist})
    return fails, len(chunk)
