"""bin/check entry point: dispatch to harness.checks.<id>, map outcomes to exit codes.

exit 0  property held on everything explored (or only known findings fired)
exit 1  violation (a line `VIOLATION property=<id> replay=<path>` was printed)
exit 2  machinery failure (TLC crash, vacuity guard, harness bug) -- never reported as a violation
"""
import argparse
import importlib
import os
import sys
import traceback

from harness import core


def main():
    ap = argparse.ArgumentParser()
    ap.add_argument("prop")
    ap.add_argument("--tier", default=os.environ.get("VERIF_TIER", "quick"), choices=["quick", "thorough"])
    ap.add_argument("--replay", default=None)
    a = ap.parse_args()
    core.setup_repo_path()
    try:
        mod = importlib.import_module("harness.checks." + a.prop.lower())
        if a.replay:
            rc = mod.replay(a.replay)
        else:
            rc = mod.main(a.tier)
    except Exception:
        traceback.print_exc()
        print("MACHINERY-FAILURE property=%s" % a.prop, flush=True)
        sys.exit(2)
    sys.exit(rc)


if __name__ == "__main__":
    main()
