"""Trace validation driver: write recorded traces, run the TLC trace spec, parse total verdicts."""
import json
import os
import re

from harness import tlc


def validate(chk, trace_module, traces, workers=8, extra_invariants=("Inv",)):
    """traces: list of {tid, cfg, events}.  Returns {tid: ("ACCEPT",) | ("REJECT", l, clause)}."""
    os.makedirs(tlc.WORK, exist_ok=True)
    path = os.path.join(tlc.WORK, "trace_%s_%d.json" % (chk.prop, os.getpid()))
    with open(path, "w") as f:
        json.dump({"traces": traces}, f)
    try:
        r = tlc.run(trace_module, tlc.make_cfg(invariants=["Verdict"] + list(extra_invariants)),
                    env={"TRACE_FILE": path}, workers=workers, coverage=True, timeout=3000)
    finally:
        os.remove(path)
    chk.add_tlc(r)
    verdicts = {}
    for raw in r.tags.get("ACCEPT", []):
        verdicts[json.loads(tlc._unquote(raw))["tid"]] = ("ACCEPT",)
    for raw in r.tags.get("REJECT", []):
        d = json.loads(tlc._unquote(raw))
        tid, l, clause = d["tid"], d["l"], d["clause"]
        if tid not in verdicts or (verdicts[tid][0] == "REJECT" and l < verdicts[tid][1]):
            verdicts[tid] = ("REJECT", l, clause)
    if not r.ok:
        # the design invariant failed along an accepted prefix: that is a spec/trace inconsistency
        chk.spec_violation(r, "design invariant violated along a recorded trace")
    for t in traces:
        if t["tid"] not in verdicts:
            raise RuntimeError("trace %s got no verdict (machinery failure)\n%s" % (t["tid"], r.stdout[-2000:]))
    return verdicts
