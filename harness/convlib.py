"""Binding helpers between Convolution.tla configurations and geom.convolve arguments."""
import contextlib
import io
import itertools

import numpy as np


def code_args(cfg, variant=0):
    """Translate a spec configuration into the keyword arguments of geom.convolve.
    `variant` selects among equivalent spellings the API offers (None padding, int padding, ...)."""
    D = len(cfg["N"])
    torus = tuple(bool(t) for t in cfg["torus"])
    mode = cfg["mode"]
    if mode == "EXPL":
        pad = tuple((int(lo), int(hi)) for lo, hi in cfg["pad"])
        if variant % 2 == 1 and len({x for pr in pad for x in pr}) == 1:
            pad = pad[0][0]                           # integer padding n == ((n,n),)*D
    elif mode == "TORUS":
        pad = None if (variant % 2 == 1 and any(torus)) else "TORUS"
    elif mode == "SAME":
        if variant % 2 == 1:
            pad, torus = None, (False,) * D           # default resolves to SAME when no axis is toroidal
        else:
            pad = "SAME"
            # flags are irrelevant outside TORUS mode: exercise that
            torus = tuple(bool((variant >> (1 + j)) & 1) for j in range(D))
    else:
        # the three spellings of "no padding": the string, the integer 0 (falsy!) and literal zero pairs
        pad = ["VALID", 0, ((0, 0),) * D][(variant // 2) % 3]
        torus = tuple(bool((variant >> (1 + j)) & 1) for j in range(D))
    stride = tuple(int(s) for s in cfg["stride"])
    if variant % 4 >= 2 and len(set(stride)) == 1:
        stride = stride[0]
    rdil = tuple(int(s) for s in cfg["rdil"])
    if variant % 4 >= 2 and len(set(rdil)) == 1:
        rdil = rdil[0]
    ldil = tuple(int(s) for s in cfg["ldil"])
    if set(ldil) == {1} and variant % 3 != 0:
        ldil = None
    if isinstance(torus, tuple) and len(set(torus)) == 1 and variant % 5 == 4:
        torus = torus[0]
    return dict(is_torus=torus, stride=stride, padding=pad, lhs_dilation=ldil, rhs_dilation=rdil)


def quiet(fn, *a, **kw):
    with contextlib.redirect_stdout(io.StringIO()):
        return fn(*a, **kw)


def code_tap_table(geom, jnp, cfg, variant=0):
    """One geom.convolve call reveals the whole tap table of a cell: scalar token image, one one-hot
    filter per tap.  Returns (out_dims, flat table) in the spec's layout."""
    D = len(cfg["N"])
    N, M = tuple(cfg["N"]), tuple(cfg["M"])
    n, T = int(np.prod(N)), int(np.prod(M))
    img = np.arange(1, n + 1, dtype=np.float32).reshape((1, 1) + N)
    filt = np.eye(T, dtype=np.float32).reshape((T, 1) + M)
    kw = code_args(cfg, variant)
    out = np.asarray(quiet(geom.convolve, D, jnp.asarray(img), jnp.asarray(filt), kw["is_torus"], kw["stride"],
                           kw["padding"], kw["lhs_dilation"], kw["rhs_dilation"]))
    odims = out.shape[2:]
    tab = np.moveaxis(out[0], 0, -1).reshape(-1)          # (out pixels, taps) row-major
    return tuple(odims), (np.rint(tab).astype(int) - 1).tolist(), bool(np.all(tab == np.rint(tab)))


def py_src_table(cfg):
    """Not used for verdicts -- only to explain a mismatch in replay files (human-readable)."""
    return None


def mats_of(gens_or_group):
    return [np.array(m) for m in gens_or_group]


def g_to_mat(g):
    D = len(g["p"])
    m = np.zeros((D, D), dtype=int)
    for i in range(D):
        m[i, g["p"][i] - 1] = g["s"][i]
    return m


def all_group(D):
    out = []
    for perm in itertools.permutations(range(1, D + 1)):
        for s in itertools.product([1, -1], repeat=D):
            out.append({"p": list(perm), "s": list(s)})
    return out
