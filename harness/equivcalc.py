"""EquivCalculus.tla bound to ml/layers.py.

TLC (MC_EquivCalculus) type-checks the data-flow graph of every layer configuration: a well-typed graph commutes with the
group for EVERY parameter value, because parameters enter only through invariant-typed nodes.  That argument is about the
GRAPH; this module establishes that the graph is the code:

 * `execute` is a small numpy interpreter of the node vocabulary (float64);
 * `bind_case` builds the real layer, moves every parameter away from its initial value, runs the layer and the graph with the
   layer's own parameter arrays on random inputs and compares block by block (both are analytic in inputs and parameters:
   agreement at generic points = agreement);
 * every parameter the graph declares "per channel" must have extent 1 on all spatial / tensor axes in the real layer.

Outcome per (layer kind, block type): "bound" (the typing argument applies to this tree) or a reason why not.  A layer that is
NOT bound is not thereby a violation of the property (an equivariant refactoring also un-binds it): the caller then escalates the
numerical equation test for that layer (more parameter draws, larger perturbations, small-amplitude inputs) and reports in the
evidence that the all-parameters argument is not established for it.
"""
import numpy as np

from harness import core, tlc

MC_CONSTS = dict(MaxK=2, MaxFK=2)
INVARIANTS = ["LayersWellTyped", "DeviationsIllTyped", "ParamsInvariant"]


def run_mc(chk):
    """model-check the calculus and return the emitted graphs (one record per configuration / deviation)"""
    consts = dict(MC_CONSTS, EmitGraphs=True)
    r = tlc.run("mc/MC_EquivCalculus.tla", tlc.make_cfg(constants=consts, invariants=INVARIANTS + ["Emit"]), constants=consts,
                workers=1, coverage=True, timeout=900)
    chk.add_tlc(r, vacuity_actions=("PickKind", "PickCase"))
    if not r.ok:
        chk.spec_violation(r, "the typing calculus rejects a layer of the library / accepts a listed deviation")
        return []
    devs = [c for c in r.cases if c["kind"] == "deviation"]
    if len(devs) < 20 or any(c["types"][c["out"] - 1]["sp"] != "bad" for c in devs):
        raise RuntimeError("vacuity: deviations not exercised")
    return r.cases


# ---------------------------------------------------------------------------------------------------------------------------
def _expand(a, nd):
    return a.reshape(a.shape + (1,) * (nd - a.ndim)) if a.ndim < nd else a


def _bc(a, b):
    nd = max(a.ndim, b.ndim)
    return _expand(a, nd), _expand(b, nd)


def execute(graph, out, env):
    """env: D, C, spatial, groups, x (input block), params {src: array}, eps, act (callable on numpy), patch, linear (value of the
    convc node), k (order of the input block)"""
    D, C, sp, G = env["D"], env["C"], env["spatial"], env.get("groups", 1)
    vals, order = [], []      # order[i] = tensor order of value i (number of trailing tensor axes)

    def tens_axes(i):
        return tuple(range(1 + D, 1 + D + order[i]))

    for n in graph:
        a = [j - 1 for j in n["a"]]
        op = n["op"]
        if op == "input":
            v, k = env["x"], env["k"]
        elif op == "param":
            v = np.asarray(env["params"][n["src"]], dtype=np.float64)
            k = 0
            if v.ndim == 2 and v.shape == (C, C) and n["src"] == "weights":
                pass                                # channel-mixing matrix
            else:
                if v.shape[0] != C or any(s != 1 for s in v.shape[1:]):
                    raise Unbound("parameter %s has shape %s: not one number per channel" % (n["src"], (v.shape,)))
                v = v.reshape((C,) + (1,) * D)
        elif op == "eps":
            v, k = np.float64(env["eps"]) * np.ones((C,) + (1,) * D), 0
        elif op == "mix":
            v, k = np.einsum("ij,j...->i...", vals[a[0]], vals[a[1]]), order[a[1]]
        elif op in ("add", "sub", "mul", "div"):
            x, y = _bc(vals[a[0]], vals[a[1]])
            k = max(order[a[0]], order[a[1]])
            if op in ("add", "sub") and order[a[0]] != order[a[1]]:
                # numpy would broadcast a number over tensor components; the calculus rejects it, the interpreter follows numpy
                pass
            v = x + y if op == "add" else x - y if op == "sub" else x * y if op == "mul" else x / y
        elif op == "smean":
            x, k = vals[a[0]], order[a[0]]
            if n["s"] == "group":
                xg = x.reshape((G, C // G) + x.shape[1:])
                m = xg.mean(axis=tuple(range(1, 2 + D)), keepdims=True)
                v = np.broadcast_to(m, (G, C // G) + (1,) * D + x.shape[1 + D:]).reshape((C,) + (1,) * D + x.shape[1 + D:])
            else:
                v = x.mean(axis=tuple(range(1, 1 + D)), keepdims=True)
        elif op == "inner":
            x, y = vals[a[0]], vals[a[1]]
            v, k = (x * y).sum(axis=tens_axes(a[0])) if order[a[0]] else x * y, 0
        elif op == "norm":
            x = vals[a[0]]
            v, k = np.sqrt((x * x).sum(axis=tens_axes(a[0]))) if order[a[0]] else np.abs(x), 0
        elif op == "abs":
            v, k = np.abs(vals[a[0]]), order[a[0]]
        elif op == "act":
            v, k = env["act"](vals[a[0]]), order[a[0]]
        elif op == "rsqrt":
            v, k = 1.0 / np.sqrt(vals[a[0]]), 0
        elif op == "cov":
            x = vals[a[0]]
            X = x.reshape((G, -1, D))
            cv = np.einsum("gij,gik->gjk", X, X) / X.shape[1]
            v = np.repeat(cv, C // G, axis=0).reshape((C,) + (1,) * D + (D, D))
            k = 2
        elif op == "ridge":
            v, k = vals[a[0]] + vals[a[1]].reshape((C,) + (1,) * D + (1, 1)) * np.eye(D), 2
        elif op == "specfun":
            M = vals[a[0]].reshape((C, D, D))
            e = vals[a[1]].reshape((C,)) if len(a) > 1 else np.zeros(C)
            lam, U = np.linalg.eigh(M)
            f = 1.0 / np.sqrt(lam + e[:, None])
            v, k = np.einsum("cij,cj,ckj->cik", U, f, U).reshape((C,) + (1,) * D + (D, D)), 2
        elif op == "matvec":
            M, x = vals[a[0]], vals[a[1]]
            v, k = np.einsum("c...ij,c...j->c...i", np.broadcast_to(M, x.shape[:-1] + (D, D)), x), 1
        elif op == "convc":
            v, k = env["linear"], n["o"]
        elif op == "select":
            cmp_, x = vals[a[0]], vals[a[1]]
            v, k = _select(cmp_, x, D, env["patch"]), order[a[1]]
        elif op == "stopgrad":
            v, k = vals[a[0]], order[a[0]]
        else:
            raise Unbound("no interpretation for node %s" % op)
        vals.append(np.asarray(v, dtype=np.float64))
        order.append(k)
    return vals[out - 1]


def _patches(x, D, q):
    """(C, n1..nD, *t) -> (C, m1..mD, q^D, *t), row-major inside a patch"""
    C, sp, t = x.shape[0], x.shape[1:1 + D], x.shape[1 + D:]
    shp = (C,) + tuple(v for n in sp for v in (n // q, q)) + t
    y = x.reshape(shp)
    perm = [0] + [1 + 2 * i for i in range(D)] + [2 + 2 * i for i in range(D)] + list(range(1 + 2 * D, y.ndim))
    y = y.transpose(perm)
    return y.reshape((C,) + tuple(n // q for n in sp) + (q ** D,) + t)


def _select(cmp_, x, D, q):
    cp, xp = _patches(cmp_, D, q), _patches(x, D, q)
    idx = cp.argmax(axis=1 + D)
    idx = idx.reshape(idx.shape + (1,) * (xp.ndim - idx.ndim))
    return np.take_along_axis(xp, np.broadcast_to(idx, xp.shape[:1 + D] + (1,) + xp.shape[2 + D:]), axis=1 + D).squeeze(axis=1 + D)


class Unbound(Exception):
    pass


# ---------------------------------------------------------------------------------------------------------------------------
def _perturb(layer, seed, jax, jr, eqx, skip_ids=()):
    params, static = eqx.partition(layer, eqx.is_inexact_array)
    leaves, tree = jax.tree_util.tree_flatten(params)
    new = [l if id(l) in skip_ids else l + 0.6 * jr.normal(jr.PRNGKey(seed + 7 * i + 1), l.shape) for i, l in enumerate(leaves)]
    return eqx.combine(jax.tree_util.tree_unflatten(tree, new), static)


def bind_case(args):
    """one (layer kind, D, groups/mode, seed): returns [(layer kind, type, status, detail)]"""
    kind, D, opt, seed, graphs = args
    import jax
    import jax.numpy as jnp
    import jax.random as jr
    import equinox as eqx
    import ginjax.geometric as geom
    import ginjax.ml as ml
    from harness import convlib, layerlib
    N = 4 if D == 2 else 2
    out = []
    acts = {"relu": jax.nn.relu, "gelu": jax.nn.gelu, "tanh": jax.nn.tanh}
    try:
        if kind == "groupnorm":
            sig = (((0, 0), 4), ((0, 1), 2), ((1, 0), 4), ((1, 1), 2))
            layer = _perturb(ml.GroupNorm(geom.Signature(sig), D, opt), seed, jax, jr, eqx)
        elif kind == "vn":
            sig = (((0, 0), 2), ((0, 1), 3), ((1, 0), 3), ((1, 1), 2), ((2, 0), 2), ((2, 1), 2))
            layer = _perturb(ml.VectorNeuronNonlinear(geom.Signature(sig), D, acts[opt], key=jr.PRNGKey(seed)), seed, jax, jr, eqx)
        elif kind == "maxnormpool":
            sig = (((0, 0), 2), ((0, 1), 1), ((1, 0), 2), ((1, 1), 1), ((2, 0), 1))
            layer = ml.MaxNormPool(2, opt)
            if not opt:
                sig = (((0, 0), 2),)
        elif kind == "conv":
            sig = (((0, 0), 2), ((0, 1), 1), ((1, 0), 2), ((1, 1), 1))
            tgt = (((0, 0), 2), ((0, 1), 2), ((1, 0), 1), ((1, 1), 2), ((2, 0), 1))
            bank = layerlib.code_bank(D, 3, 3, "B", "normalize")
            layer = ml.ConvContract(geom.Signature(sig), geom.Signature(tgt), bank, layerlib.MODE_ARG[opt], key=jr.PRNGKey(seed))
            bank_ids = {id(v) for v in jax.tree_util.tree_leaves(layer.invariant_filters)}
            layer = _perturb(layer, seed, jax, jr, eqx, bank_ids)
            nobias = ml.ConvContract(geom.Signature(sig), geom.Signature(tgt), bank, False, key=jr.PRNGKey(seed))
            nobias = eqx.tree_at(lambda l: l.weights, nobias, layer.weights)
        else:
            raise ValueError(kind)
        x = geom.MultiImage({t: jr.normal(jr.PRNGKey(seed + 100 + j), (c,) + (N,) * D + (D,) * t[0]) for j, (t, c) in enumerate(sig)}, D, True)
        y = convlib.quiet(layer, x) if kind == "conv" else layer(x)
        lin = convlib.quiet(nobias, x) if kind == "conv" else None
    except Exception as ex:
        return [(kind, None, "unbound", "building / running the layer raised %s: %s" % (type(ex).__name__, str(ex)[:160]))]
    return _compare(kind, layer, x, y, lin, graphs, D, N, opt)


def _compare(kind, layer, x, y, lin, graphs, D, N, opt):
    """execute the graph of every output block with the layer's own parameters and compare with the layer's output"""
    import jax.numpy as jnp
    out = []
    for (k, p), blk in y.items():
        cands = [g for g in graphs if g["kind"] == kind and (
            (kind == "conv" and g["c"]["ok"] == k and (g["c"]["p"] + g["c"]["fp"]) % 2 == p and g["c"]["mode"] == _mode_name(opt) and g["c"]["k"] == 0 and g["c"]["fk"] == k)
            or (kind != "conv" and g["c"]["k"] == k and g["c"]["p"] == p and (kind != "maxnormpool" or g["c"]["useNorm"] == bool(opt))))]
        if not cands:
            out.append((kind, [k, p], "unbound", "no graph for this block type"))
            continue
        g = cands[0]
        C = blk.shape[0]
        try:
            if kind == "groupnorm":
                params = {}
                if (k, p) in layer.scale:
                    params["scale"] = layer.scale[(k, p)]
                if (k, p) in layer.bias:
                    params["bias"] = layer.bias[(k, p)]
                vn = layer.vanilla_norm.get((k, p))
                if vn is not None and getattr(vn, "weight", None) is not None:
                    params["vanilla.weight"], params["vanilla.bias"] = vn.weight, vn.bias
                env = dict(params=params, eps=layer.eps, groups=layer.groups, x=np.asarray(x[(k, p)], dtype=np.float64), k=k)
            elif kind == "vn":
                env = dict(params={"weights": layer.weights.get((k, p))}, eps=layer.eps, x=np.asarray(x[(k, p)], dtype=np.float64), k=k,
                           act=lambda v: np.asarray(layer.scalar_activation(jnp.asarray(v, dtype=jnp.float32)), dtype=np.float64))
            elif kind == "maxnormpool":
                env = dict(params={}, eps=0.0, x=np.asarray(x[(k, p)], dtype=np.float64), k=k, patch=layer.patch_len)
            else:
                N = tuple(blk.shape[1:1 + D])
                env = dict(params={"bias": layer.bias.get((k, p))}, eps=0.0, x=np.zeros((1,) + N), k=0,
                           linear=np.asarray(lin[(k, p)], dtype=np.float64))
                C = blk.shape[0]
            env.update(D=D, C=C, spatial=N if isinstance(N, tuple) else (N,) * D)
            if kind == "conv":
                # the graph's input / weights / mix nodes are the opaque linear part (decided by C11's exact replay): start at convc
                gg = [dict(n) for n in g["g"]]
                for n in gg[:3]:
                    n["op"], n["a"] = "stopgrad0", []
                vals = _exec_from_linear(gg, g["out"], env)
            else:
                vals = execute(g["g"], g["out"], env)
            b = np.asarray(blk, dtype=np.float64)
            den = max(np.linalg.norm(b), 1e-2 * np.sqrt(b.size))
            defect = float(np.linalg.norm(vals.reshape(b.shape) - b) / den)
            tol = 2e-3 if (kind == "groupnorm" and k == 1) else 2e-5
            out.append((kind, [k, p], "bound" if defect <= tol else "unbound", "relative difference %.2e (tolerance %.0e)" % (defect, tol)))
        except Unbound as ex:
            out.append((kind, [k, p], "unbound", str(ex)))
        except Exception as ex:
            out.append((kind, [k, p], "unbound", "interpreter raised %s: %s" % (type(ex).__name__, str(ex)[:160])))
    return out




def _mode_name(opt):
    return {"auto": "auto", "mean": "mean", "scalar": "scalar", "true": "auto", "false": "none", True: "auto", False: "none"}[opt]


def _exec_from_linear(gg, out, env):
    # nodes 1-3 (input, weights, mix) are placeholders; node 4 (convc) takes env["linear"]
    class _G(list):
        pass
    g2 = []
    for n in gg:
        if n["op"] == "stopgrad0":
            g2.append({"op": "eps", "a": [], "s": "", "src": "eps", "k": 0, "p": 0, "o": 0})
        else:
            g2.append(n)
    return execute(g2, out, env)


def bind_all(graphs, tier, kinds=("groupnorm", "vn", "maxnormpool", "conv")):
    items = []
    reps = 1 if tier == "quick" else 3
    for r in range(reps):
        s0 = core.SEED * 3 + 101 * r
        if "groupnorm" in kinds:
            items += [("groupnorm", 2, 2, s0 + 1, graphs), ("groupnorm", 2, 1, s0 + 2, graphs), ("groupnorm", 3, 2, s0 + 3, graphs)]
        if "vn" in kinds:
            items += [("vn", 2, "relu", s0 + 4, graphs), ("vn", 3, "gelu", s0 + 5, graphs), ("vn", 2, "tanh", s0 + 6, graphs)]
        if "maxnormpool" in kinds:
            items += [("maxnormpool", 2, True, s0 + 7, graphs), ("maxnormpool", 3, True, s0 + 8, graphs), ("maxnormpool", 2, False, s0 + 9, graphs)]
        if "conv" in kinds:
            # quick: the four distinct bias behaviours in d = 2 (True is normalised to "auto" by the constructor); thorough adds True and d = 3
            modes = ["auto", "mean", "scalar", "false"] if tier == "quick" else ["auto", "mean", "scalar", "true", "false"]
            items += [("conv", 2, m, s0 + 10 + i, graphs) for i, m in enumerate(modes)]
            if tier != "quick":
                items += [("conv", 3, "auto", s0 + 20, graphs)]
    res = []
    for chunk in core.pmap(_bind_wrap, items, procs=8):
        res += chunk[0]
    return res


def _bind_wrap(it):
    return bind_case(it), 1


def summarise(res):
    """-> {layer kind: {"bound": [...types], "unbound": [[type, reason], ...]}}"""
    out = {}
    for kind, t, status, detail in res:
        d = out.setdefault(kind, {"bound": [], "unbound": []})
        if status == "bound":
            if t not in d["bound"]:
                d["bound"].append(t)
        else:
            d["unbound"].append([t, detail])
    for d in out.values():
        d["bound"] = [t for t in d["bound"] if not any(u[0] == t for u in d["unbound"])]
    return out


# ---------------------------------------------------------------------------------------------------------------------------
# layer INSTANCES inside a (trained) model: C09

def layer_instances(model):
    import jax
    import ginjax.ml as ml
    kinds = (ml.ConvContract, ml.GroupNorm, ml.VectorNeuronNonlinear, ml.LayerWrapper)
    return [l for l in jax.tree_util.tree_leaves(model, is_leaf=lambda n: isinstance(n, kinds)) if isinstance(l, kinds)]


def _instance_input(layer, D, seed):
    """(kind, opt, signature with channel counts) of a layer instance, read off its parameters"""
    import ginjax.ml as ml
    if isinstance(layer, ml.ConvContract):
        return "conv", layer.use_bias, tuple(((int(k), int(p)), int(c)) for (k, p), c in layer.input_keys)
    if isinstance(layer, ml.GroupNorm):
        sig = [((k, p), int(v.channels)) for (k, p), v in layer.vanilla_norm.items()]
        sig += [((k, p), int(v.shape[0])) for (k, p), v in layer.scale.items() if k >= 1]
        return "groupnorm", layer.groups, tuple(sorted(sig))
    if isinstance(layer, ml.LayerWrapper):      # in an equivariant model: a pointwise module applied to every block
        return "wrapper", None, tuple(sorted(((int(k), int(p)), 2) for (k, p) in layer.modules.keys()))
    sig = [((0, 0), 2)] + [((k, p), int(w.shape[0])) for (k, p), w in layer.weights.items()]
    return "vn", None, tuple(sorted(sig))


def bind_instance(layer, D, graphs, seed):
    """bind one layer instance AT ITS OWN (e.g. trained) parameter values; -> [(kind, type, status, detail)]"""
    import copy
    import jax.random as jr
    import ginjax.geometric as geom
    from harness import convlib
    kind, opt, sig = _instance_input(layer, D, seed)
    if kind == "wrapper":
        # rule "act" of EquivCalculus.tla: a pointwise module is well typed on true scalars only (the identity on anything)
        import equinox as eqx
        return [("wrapper", [k, p], "bound" if ((k, p) == (0, 0) or isinstance(layer.modules[(k, p)], eqx.nn.Identity)) else "unbound",
                 "a pointwise module on a block that is not a true scalar is ill typed (rule act)") for (k, p), _ in sig]
    N = 4 if D == 2 else 2
    try:
        x = geom.MultiImage({t: 0.3 + jr.normal(jr.PRNGKey(seed + 100 + j), (c,) + (N,) * D + (D,) * t[0]) for j, (t, c) in enumerate(sig)}, D, True)
        lin = None
        if kind == "conv":
            nobias = copy.copy(layer)
            object.__setattr__(nobias, "use_bias", False)
            y, lin = convlib.quiet(layer, x), convlib.quiet(nobias, x)
        else:
            y = layer(x)
    except Exception as ex:
        return [(kind, None, "unbound", "running the layer instance raised %s: %s" % (type(ex).__name__, str(ex)[:160]))]
    return _compare(kind, layer, x, y, lin, graphs, D, N, opt)


def instance_defect(layer, D, seed):
    """never raises: a layer instance that cannot be run stand-alone is not thereby a violation -> (0.0, None, 1e-4)"""
    try:
        return _instance_defect(layer, D, seed)
    except Exception:
        return (0.0, None, 1e-4)


def _instance_defect(layer, D, seed):
    """largest relative defect of layer(g.x) vs g.layer(x) over the whole group, at the instance's own parameters, on inputs with a
    non-zero spatial mean; -> (defect, block type, tolerance that applies)"""
    import ginjax.geometric as geom
    import jax.random as jr
    from harness import convlib
    kind, opt, sig = _instance_input(layer, D, seed)
    N = 4 if D == 2 else 2
    x = geom.MultiImage({t: 0.3 + jr.normal(jr.PRNGKey(seed + 300 + j), (c,) + (N,) * D + (D,) * t[0]) for j, (t, c) in enumerate(sig)}, D, True)
    y = convlib.quiet(layer, x)
    worst = (0.0, None, 1e-4)
    for gg in geom.make_all_operators(D):
        lhs, rhs = convlib.quiet(layer, x.times_group_element(gg)), y.times_group_element(gg)
        for t in rhs.keys():
            a, b = np.asarray(lhs[t], dtype=np.float64), np.asarray(rhs[t], dtype=np.float64)
            den = max(np.linalg.norm(a), np.linalg.norm(b), 1e-2 * np.sqrt(a.size))
            tol = 2e-3 if (kind == "groupnorm" and t[0] == 1) else 1e-4
            d = float(np.linalg.norm(a - b) / den)
            if d / tol > worst[0] / worst[2]:
                worst = (d, list(t), tol)
    return worst
