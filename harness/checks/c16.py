"""C16 -- autoregressive rollout feeds each prediction back correctly.

Spec:  Rollout.tla -- window machine (drop oldest / append prediction per channel, constants in place, type order
       unchanged) against the closed form "last `past` frames of initial ++ predictions"; ClosedForm is a TLC invariant
       on every step of every behaviour.  The model is a history-sensitive integer map with a Python twin.
GEN:   complete rollouts: initial window, every prediction, every intermediate window, the assembled output.
Replay: ml.autoregressive_step after every step (exact) and ml.autoregressive_map at the end, for every storage order of
       the input, signatures with dynamic+constant, constant-only and dynamic-only types.
"""
import itertools

import numpy as np

from harness import core, storereplay, tlc

MODULE = "Rollout.tla"
SIGS = [
    (((0, 0), 2, 1), ((1, 0), 1, 0), ((0, 1), 0, 2)),        # dynamic+constant, dynamic-only, constant-only
    (((1, 0), 2, 2), ((0, 0), 1, 0)),
    (((0, 0), 1, 0),),
    (((2, 0), 1, 1), ((0, 1), 2, 0), ((1, 1), 0, 1)),
    (((0, 0), 3, 1), ((1, 0), 1, 0)),                        # three dynamic channels: channel-major / time-major interleaving
    # shape twins: two types whose blocks have the SAME shape (channels x pixels x components) but a different split into
    # dynamic channels and constant fields -- at past = 1, 2, 3 respectively (anything keyed on the block shape confuses them)
    (((0, 0), 3, 0), ((0, 1), 1, 2)),
    (((0, 0), 2, 0), ((0, 1), 1, 2)),
    (((1, 0), 1, 0), ((1, 1), 0, 3)),
]


def instances(tier):
    out = []
    combos = [(si, past, n, (si + past + n) % 3 + 1) for si in range(len(SIGS)) for past in (1, 2, 3) for n in (2, 3)]
    if tier == "thorough":
        combos = [(si, past, n, m) for si in range(len(SIGS)) for past in (1, 2, 3) for n in (1, 2, 4) for m in (1, 2, 3)]
    for si, past, n, m in combos:
        sig = SIGS[si]
        orders = set(itertools.permutations(range(1, len(sig) + 1)))
        out.append(dict(D=2, Dims=(1, 2) if si % 2 == 0 else (2, 1), Torus=(True, False), Sig=sig, Past=past, NSteps=n, ModelId=m, Orders=orders))
    out.append(dict(D=3, Dims=(1, 2, 1), Torus=(True, True, False), Sig=(((1, 0), 1, 1), ((0, 0), 2, 0)), Past=2, NSteps=2, ModelId=2,
                    Orders={(1, 2), (2, 1)}))
    return out


def make_twin(sig, past, model_id, geom, jnp):
    """line-for-line twin of Rollout!Model"""
    sigd = {tuple(t): (c, n) for t, c, n in sig}

    def model(x, aux=None):
        D = x.D
        types = sorted(x.keys())
        G = 0.0
        for i, t in enumerate(types, 1):
            blk = np.asarray(x[t])
            for u in range(blk.shape[0]):
                G += (u + 1 + i) * float(blk[u].ravel()[0])
        G = G % 97
        out = {}
        for t in x.keys():
            c, n = sigd[t]
            if c == 0:
                continue
            blk = np.asarray(x[t], dtype=np.float64)
            frames = []
            for ch in range(c):
                acc = sum((j + 1 + model_id) * blk[ch * past + j] for j in range(past))
                acc = acc + (5 + model_id) * sum((q + 1) * blk[c * past + q] for q in range(n)) + G
                frames.append(np.mod(acc, 97))
            out[t] = jnp.asarray(np.stack(frames).astype(np.float32))
        return geom.MultiImage(out, D, x.is_torus), aux
    return model


def replay_chunk(chunk):
    import jax
    import jax.numpy as jnp
    import ginjax.geometric as geom
    import ginjax.ml as ml
    fails = []
    for c in chunk:
        sig, past, n = [(tuple(t), cd, nc) for t, cd, nc in c["sig"]], c["past"], c["nsteps"]
        key = {"sig": c["sig"], "past": past, "nsteps": n, "model": c["model"], "order": c["init"]["order"]}
        model = make_twin(sig, past, c["model"], geom, jnp)
        cdict = {t: nc for t, cd, nc in sig if nc > 0}

        def fail(what, **kw):
            fails.append({"key": dict(key, what=what, **kw), "case": c})
        try:
            x = storereplay.build(c["init"], geom, jnp, "New")
            for s in range(n):
                pred, _ = model(x)
                d = storereplay.diff(c["preds"][s], pred)
                if d:
                    raise RuntimeError("model twin disagrees with Rollout!Model at step %d: %s" % (s + 1, d))
                x = ml.autoregressive_step(x, pred, past, cdict)
                d = storereplay.diff(c["windows"][s], x, strict_order=True)
                if d:
                    fail("autoregressive_step: " + d.split(":")[0], step=s + 1, detail=d)
                    break
            else:
                x0 = storereplay.build(c["init"], geom, jnp, "New")
                out, _ = ml.autoregressive_map(model, x0, None, past, n, cdict)
                want = {tuple(t): v for t, v in zip(c["outtypes"], c["out"])}
                if set(out.keys()) != set(want.keys()):
                    fail("autoregressive_map: output types", expected=sorted(want), observed=sorted(out.keys()))
                for t, v in want.items():
                    if t in out.keys():
                        g = np.asarray(out[t])
                        if g.shape[0] * int(np.prod(g.shape[1:])) != len(v) or g.ravel().tolist() != [float(u) for u in v]:
                            fail("autoregressive_map: predictions of type %s are not in time order per channel" % (list(t),))
                        if g.shape[0] != dict((tt, cd) for tt, cd, nc in sig)[t] * n:
                            fail("autoregressive_map: channel count of type %s" % (list(t),))
                if out.D != c["init"]["d"] or tuple(out.is_torus) != tuple(bool(b) for b in c["init"]["torus"]):
                    fail("autoregressive_map: D / is_torus")
        except RuntimeError:
            raise
        except Exception as ex:
            fail("raised %s: %s" % (type(ex).__name__, str(ex)[:200]))
    return fails, len(chunk)


def main(tier):
    chk = core.Check("C16", tier)
    chk.rule = ("one behaviour per (signature, past, steps, model instance, storage order of the input); non-trivial = past > 1 or "
                "constants present or several types; distinct by that tuple")
    insts = instances(tier)
    jobs = [dict(module_path=MODULE, cfg=tlc.make_cfg(constants=c, invariants=["ClosedForm", "Emit"]), constants=c, coverage=False,
                 workers=2, timeout=3000) for c in insts]
    cases = []
    for r in tlc.run_many(jobs, parallel=8):
        chk.add_tlc(r, vacuity_actions=("Step",))
        if not r.ok:
            chk.spec_violation(r, "window machine and closed form disagree in the specification")
        cases += r.cases
    chk.exhaustive = True
    for fails, n in core.pmap(replay_chunk, core.shards(cases, 32)):
        chk.evaluations += n
        chk.traces += n
        for f in fails:
            chk.report(f["key"], payload=f)
    # history pass: the same behaviours once more, all in ONE process each way round (forwards / backwards, ordered so that
    # equal block shapes with different roles follow each other): a rollout must not depend on the rollouts run before it
    hist = sorted([c for c in cases if c["nsteps"] == min(x["nsteps"] for x in cases)],
                  key=lambda c: (c["past"], sorted(cd * c["past"] + nc for _, cd, nc in c["sig"]), core.chash(c["sig"])))
    for fails, n in core.pmap(replay_chunk, [hist, hist[::-1]]):
        chk.evaluations += n
        for f in fails:
            f["key"]["pass"] = "history (one process, %d rollouts in sequence)" % len(hist)
            chk.report(f["key"], payload=f)
    chk.extra["history_pass"] = {"rollouts_in_one_process": len(hist), "orders": 2}
    for c in cases:
        if c["past"] > 1 or any(s[2] > 0 for s in c["sig"]) or len(c["sig"]) > 1:
            chk.distinct.add(core.chash([c["sig"], c["past"], c["nsteps"], c["model"], c["ord"]]))
    c = cases[0]
    chk.samples = [{"sig": c["sig"], "past": c["past"], "nsteps": c["nsteps"], "order": c["init"]["order"],
                    "init_vals": c["init"]["vals"], "pred1": c["preds"][0]["vals"], "window1": c["windows"][0]["vals"]}]
    chk.assumptions = ["TLC/SANY/Json trusted", "the Python twin of Rollout!Model is compared with the spec's predictions at every step "
                       "(a disagreement is a machinery failure, not a violation)", "integer arithmetic mod 97: float32 exact"]
    return chk.finish()


def replay(path):
    import json
    pl = json.load(open(path))
    core._pool_init()
    fails, _ = replay_chunk([pl["case"]])
    for f in fails:
        print("VIOLATION property=C16 replay=%s" % path)
        print("  detail:", core.canon(f["key"])[:500])
    return 1 if fails else 0
