"""C06 -- the equivariant linear layer is equivariant for every parameter value.

Spec:  ConvContractLayer.tla; Gen_LayerValue checks, as TLC invariants on integer inputs / weights / biases and the library's
       own filter bank, (i) BankInvariant: every filter is fixed by the listed group elements, (ii) Equivariant:
       LayerOut(g.x) = g.LayerOut(x) block by block with the transported configuration -- for all five bias modes, TORUS /
       SAME / the up-sampling configuration (even filter, literal padding, image dilation), filter dilation, d = 2 and 3,
       full-group and rotation-subgroup banks.
Replay: the real layer with exactly those parameters equals LayerOut (exact), hence commutes with g on those points.
Float: default normalised banks, weights AND biases perturbed away from initialisation, k <= 2, layer(g.x) vs g.layer(x)
       for every g of the bank's group and cyclic shifts on tori; per-block relative defect <= 1e-4 (exploration).
"""
import random

import numpy as np

from harness import convlib, core, equivcalc, layerlib


def float_case(args):
    idx, seed, D, group, conf, mode, kcap = args
    import jax
    import jax.numpy as jnp
    import jax.random as jr
    import equinox as eqx
    import ginjax.geometric as geom
    import ginjax.ml as ml
    rng = random.Random(seed)
    ops = layerlib.group_ops(D, group)
    M = 2 if conf == "UP" else 3
    bank = layerlib.code_bank(D, M, 2 * kcap, group, "normalize")
    pool = [t for t in layerlib.TYPES if t[0] <= kcap]
    ins = [((t[0], t[1]), c) for t, c in zip(rng.sample(pool, min(3, len(pool))), [2, 1, 3])]
    tgt = [((t[0], t[1]), c) for t, c in zip(rng.sample(pool, min(3, len(pool))), [1, 3, 2])]
    N = 4 if D == 2 else 3
    if conf == "UP":
        kw = dict(padding=((1, 1),) * D, lhs_dilation=(2,) * D, rhs_dilation=1)
        torus = False
    elif conf == "MIXED":   # per-axis flags: the first axis toroidal, the second open (the flags travel with the axes under g)
        kw = dict(padding=None, lhs_dilation=None, rhs_dilation=rng.choice([1, 2]) if N >= 4 else 1)
        torus = ((True, False) + (True,) * D)[:D] if idx % 2 == 0 else ((False, True) + (False,) * D)[:D]
    else:
        kw = dict(padding=None, lhs_dilation=None, rhs_dilation=rng.choice([1, 2]) if N >= 4 else 1)
        torus = conf == "TORUS"
    layer = ml.ConvContract(geom.Signature(tuple(ins)), geom.Signature(tuple(tgt)), bank, layerlib.MODE_ARG[mode], 1, kw["padding"],
                            kw["lhs_dilation"], kw["rhs_dilation"], key=jr.PRNGKey(seed))
    # move every parameter (weights and biases) away from its initial value; the bank is left alone
    params, static = eqx.partition(layer, lambda l: eqx.is_array(l))
    leaves, tree = jax.tree_util.tree_flatten(params)
    bank_ids = {id(v) for v in jax.tree_util.tree_leaves(layer.invariant_filters)}
    new = [l if id(l) in bank_ids else l + 0.7 * jr.normal(jr.PRNGKey(seed + 13 * i), l.shape) for i, l in enumerate(leaves)]
    layer = eqx.combine(jax.tree_util.tree_unflatten(tree, new), static)
    x = geom.MultiImage({t: jr.normal(jr.PRNGKey(seed + 100 + j), (c,) + (N,) * D + (D,) * t[0]) for j, (t, c) in enumerate(ins)}, D, torus)
    fails = []
    key = {"D": D, "group": group, "conf": conf, "mode": mode, "ins": [[list(t), c] for t, c in ins], "tgt": [[list(t), c] for t, c in tgt]}
    try:
        y = convlib.quiet(layer, x)
        n_checked = 0
        for gi, gg in enumerate(ops):
            lhs = convlib.quiet(layer, x.times_group_element(gg))
            rhs = y.times_group_element(gg)
            for t in rhs.keys():
                a, b = np.asarray(lhs[t], dtype=np.float64), np.asarray(rhs[t], dtype=np.float64)
                # floor: an output block that is (numerically) zero -- e.g. an odd filter whose dilated taps coincide on a
                # small torus -- must not turn rounding noise into a relative defect; inputs and parameters are O(1)
                den = max(np.linalg.norm(a), np.linalg.norm(b), 1e-2 * np.sqrt(a.size))
                defect = np.linalg.norm(a - b) / den
                n_checked += 1
                if set(lhs.keys()) != set(rhs.keys()) or defect > 1e-4:
                    fails.append({"key": dict(key, what="layer(g.x) != g.layer(x)", type=list(t), g=np.asarray(gg).tolist(), defect=float(defect))})
        if torus:
            for ax in [a for a in range(D) if (torus is True or (torus is not False and torus[a]))]:
                xs = geom.MultiImage({t: jnp.roll(v, 1, axis=1 + ax) for t, v in x.items()}, D, torus)
                lhs = convlib.quiet(layer, xs)
                for t in y.keys():
                    a, b = np.asarray(lhs[t], dtype=np.float64), np.roll(np.asarray(y[t], dtype=np.float64), 1, axis=1 + ax)
                    defect = np.linalg.norm(a - b) / max(np.linalg.norm(b), 1e-2 * np.sqrt(a.size))
                    if defect > 1e-4:
                        fails.append({"key": dict(key, what="layer does not commute with a cyclic translation", type=list(t), axis=ax, defect=float(defect))})
        if len(y.keys()) == 0 or all(float(np.abs(np.asarray(v)).max()) < 1e-8 for v in y.values()):
            if any((s[0] + t[0], (s[1] + t[1]) % 2) in bank.keys() for s, _ in ins for t, _ in tgt):
                fails.append({"key": dict(key, what="anti-vacuity: layer output is empty / zero")})
    except Exception as ex:
        fails.append({"key": dict(key, what="raised %s: %s" % (type(ex).__name__, str(ex)[:200]))})
    return fails, len(ops)


def main(tier):
    chk = core.Check("C06", tier)
    chk.rule = ("exact cases = random integer layers (config, signature, bias mode, 2 group elements each) decided by TLC and replayed; "
                "float cases = (d, group bank, config, bias mode, signature) x every g of the group; distinct by case; all are non-trivial "
                "(g ranges over non-identity elements)")
    rng = random.Random(core.SEED + 6)
    n_v = 18 if tier == "quick" else 200
    vcases = [layerlib.gen_case(rng, D=2 if i % 6 else 3, group=["B", "ROT", "FLIP"][i % 3]) for i in range(n_v)]
    for i, m in enumerate(["auto", "mean", "scalar", "true", "false"] * 2):
        if i < len(vcases):
            vcases[i]["mode"] = m
    vcases = layerlib.corner_cases(2) + vcases
    specs = [s for ch in core.pmap(layerlib.realise_chunk, core.shards(vcases, 16)) for s in ch]
    order = [c for ch in core.shards(vcases, 16) for c in ch]
    exp = layerlib.run_gen(chk, specs)
    items = [(order[i], specs[i], exp[i + 1]) for i in range(len(specs))]
    for fails, n in core.pmap(layerlib.compare_chunk, core.shards(items, 16)):
        chk.evaluations += n
        chk.traces += n
        for f in fails:
            chk.report(f["key"], payload=f)
    for c in order:
        chk.distinct.add(core.chash([c["ins"], c["tgt"], c["mode"], c["cfg"], c["seed"], c["group"]]))
    chk.samples.append({"exact_case": {k: order[0][k] for k in ("ins", "tgt", "mode", "cfg", "group")}, "gs": specs[0]["gs"]})
    # ---- float part on the code -------------------------------------------------------------------------
    fitems = []
    modes = ["auto", "mean", "scalar", "true", "false"]
    combos = [(2, "B", "TORUS", 2), (2, "B", "SAME", 1), (2, "B", "UP", 1), (2, "ROT", "TORUS", 1), (2, "FLIP", "SAME", 1),
              (3, "B", "TORUS", 1), (3, "ROT", "SAME", 1), (2, "B", "MIXED", 1), (3, "B", "MIXED", 1)]
    # ---- typing calculus: the bias branches of ConvContract as well-typed data-flow graphs, bound to the real layer ----
    graphs = equivcalc.run_mc(chk)
    summ = equivcalc.summarise(equivcalc.bind_all(graphs, tier, kinds=("conv",))) if graphs else {}
    d = summ.get("conv", {"bound": [], "unbound": [[None, "no binding result"]]})
    calc_unbound = bool(d["unbound"]) or not d["bound"]
    if calc_unbound:
        print("NOTE typing calculus not bound to ConvContract's bias branch on this tree (%s): the all-parameters argument is not "
              "established for it; escalating the numerical equation test" % "; ".join("%s %s" % (t, w) for t, w in d["unbound"][:3]), flush=True)
    chk.extra["typing_calculus"] = {"graphs_model_checked": len(graphs), "bound": d["bound"], "unbound": d["unbound"],
                                    "meaning": "bound = output block = linear part + the well-typed bias graph of EquivCalculus.tla at generic "
                                               "parameter values (the linear part itself is decided by the exact replay)"}
    reps = (1 if tier == "quick" else 6) + (3 if calc_unbound else 0)
    for r in range(reps):
        for ci, (D, grp, conf, kcap) in enumerate(combos):
            for mi, mode in enumerate(modes):
                if tier == "quick" and not calc_unbound and (ci + mi) % 2 == 1 and mode not in ("auto", "mean"):
                    continue
                fitems.append((len(fitems), core.SEED * 7 + 31 * len(fitems) + r, D, grp, conf, mode, kcap))
    n_float = 0
    for fails, n in core.pmap(float_case, fitems, procs=12):
        chk.evaluations += n
        n_float += n
        for f in fails:
            chk.report(f["key"], payload=f)
    for it in fitems:
        chk.distinct.add(core.chash(it[2:]))
    chk.extra["float_part"] = {"cases": len(fitems), "group_elements_checked": n_float, "tolerance": 1e-4,
                               "note": "sampling in the continuous variables (exploration); parameters perturbed by N(0,0.7)"}
    chk.assumptions = ["TLC/SANY/Json trusted", "exact part: random integer points of a map that is bilinear in (weights, input) plus affine bias terms",
                       "float part: tolerance 1e-4 relative per block (observed <= 2e-6 on the unchanged tree)",
                       "the code's group action is the one C02 binds to the spec"]
    return chk.finish()


def replay(path):
    import json
    pl = json.load(open(path))
    core._pool_init()
    if "case" in pl:
        chk = core.Check("C06", "quick")
        sc = layerlib.realise(pl["case"])
        exp = layerlib.run_gen(chk, [sc], workers=2)
        fails, _ = layerlib.compare_chunk([(pl["case"], sc, exp[1])])
        if chk.violations:
            return 1
    else:
        print("float findings are re-run by the full check (seeded)")
        return 2
    for f in fails[:5]:
        print("VIOLATION property=C06 replay=%s" % path)
        print("  detail:", core.canon(f["key"])[:500])
    return 1 if fails else 0
