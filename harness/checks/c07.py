"""C07 -- equivariant networks are equivariant end to end.

Structure (spec): MC_Architectures over the bounded constructor space (shared with C20): for every admissible configuration the
  forward pass goes through, every stage receives the types it has weights for, residual sums add equal type sets, the translation
  period is 2^downsamples (1 for the ResNets).
Equation (code, exploration): architectures are DRAWN FROM the configurations TLC visited (admissible, equivariant; stratified by
  class x normalisation x activation order x down-samples x signature incl. pseudo-types), every non-bank parameter is perturbed
  away from initialisation, and model(g.x) is compared with g.model(x) for every g of B_d, per output block (relative L2 defect
  <= 1e-2, floor RMS 1e-2; a failure is re-run on two fresh inputs and needs 2 of 3), plus cyclic translations by the period on tori.
  TLA+ cannot evaluate gelu / sqrt / eigh: this half is sampling in the continuous variables and is reported as such.
"""
import random

import numpy as np

from harness import archlib, core, tlc
from harness.checks import c20

TOL = 1e-2


def strat_sample(cases, rng, n):
    strata = {}
    for c in cases:
        cf = c["cfg"]
        if not (c["admissible"] and cf["equiv"] and c["stuck"] == ""):
            continue
        if cf["cls"] == "DilResNet" and cf["blocks"] > 1:
            continue
        coarse = min(cf["dims"]) // (2 ** cf["ndown"] if cf["cls"] == "UNet" else 1)
        if coarse < 4 or (cf["cls"] == "DilResNet" and min(cf["dims"]) in (4, 8, 16)) or (cf["cls"] != "UNet" and max(cf["dims"]) > 8):
            continue          # ill-conditioned / needlessly large for this class
        key = (cf["cls"], cf["gn"], cf["preact"], cf["ndown"], len(cf["ins"]) + len(cf["outs"]) > 2)
        strata.setdefault(key, []).append(c)
    # balance the classes first (U-Nets with at least one down-sampling level are the structurally richest), then the strata
    by_cls = {}
    for k in strata:
        by_cls.setdefault(k[0], []).append(k)
    order = []
    for cls in sorted(by_cls):
        ks = sorted(by_cls[cls], key=lambda k: (-(k[3]), str(k)))
        rng.shuffle(ks)
        ks.sort(key=lambda k: -k[3])
        order.append(ks)
    out, i = [], 0
    while len(out) < n and any(strata.values()):
        for ks in order:
            live = [k for k in ks if strata[k]]
            if not live or len(out) >= n:
                continue
            k = live[i % len(live)]
            strata[k].sort(key=c20.cost)
            pool = strata[k][: max(3, len(strata[k]) // 8)]
            pick = rng.choice(pool)
            strata[k].remove(pick)
            out.append(pick)
        i += 1
    return out


def equiv_case(args):
    idx, case, seed = args[:3]
    graphs = args[3] if len(args) > 3 else None
    import ginjax.geometric as geom
    cfg = case["cfg"]
    D = cfg["D"]
    fails = []
    key = {"cfg": cfg}
    try:
        act = ["gelu", "relu", "tanh"][idx % 3]
        bias = ["auto", "mean", "scalar", True, False][idx % 5]
        model = archlib.build_model(cfg, seed, use_bias=bias, activation=act)
        model, n_moved = archlib.perturb(model, seed + 1)
        if n_moved == 0:
            raise RuntimeError("anti-vacuity: no parameter was perturbed")
        ops = geom.make_all_operators(D)
        confirmed = None
        stats = {"max_defect": 0.0}
        for attempt in range(3):
            x = archlib.make_input(cfg, seed + 100 * attempt)
            y, worst, shifts = archlib.equivariance_defects(model, x, ops, period=case["period"])
            if all(float(np.abs(np.asarray(v)).max()) < 1e-6 for v in y.values()) and len(y.keys()) > 0:
                return [], 1, -1.0           # numerically zero output: trivially equivariant, counted as vacuous by main()
            bad = [w for w in worst if w["defect"] > TOL] + [dict(s, shift=True) for s in shifts if s["defect"] > TOL]
            stats["max_defect"] = max([stats["max_defect"]] + [w["defect"] for w in worst] + [s["defect"] for s in shifts])
            if attempt == 0 and not bad:
                break
            confirmed = (confirmed or 0) + (1 if bad else 0)
            last_bad = bad or None
            if attempt == 2 or (attempt >= 1 and confirmed == 0):
                pass
        if confirmed is not None and confirmed >= 2:
            w = last_bad[0] if last_bad else {}
            fails.append({"key": dict(key, what="model does not commute with a cyclic translation by its period" if w.get("shift") else "model(g.x) != g.model(x)",
                                      cls=cfg["cls"], bias=str(bias), activation=act, detail=w)})
        if graphs and not fails:
            # typing calculus at the perturbed parameter values: every ConvContract / GroupNorm / VN instance of the model is executed as its
            # well-typed graph (EquivCalculus.tla); an instance that is not its graph gets a layer-level equation test (1e-4 / 2e-3), which
            # is far sharper than the model-level tolerance
            from harness import equivcalc
            for li, layer in enumerate(equivcalc.layer_instances(model)[:10]):
                bad = [r for r in equivcalc.bind_instance(layer, D, graphs, seed + li) if r[2] != "bound"]
                if not bad:
                    continue
                d1, t1, tol = equivcalc.instance_defect(layer, D, seed + li)
                d2, _, _ = equivcalc.instance_defect(layer, D, seed + li + 1000)
                if d1 > tol and d2 > tol:
                    fails.append({"key": dict(key, what="a layer of the model does not commute with the group (layer-level test at perturbed parameters)",
                                              cls=cfg["cls"], layer=type(layer).__name__, type=t1, defect=max(d1, d2), unbound=str(bad[0][3])[:120])})
                    break
        return fails, 1, stats["max_defect"]
    except RuntimeError:
        raise
    except Exception as ex:
        fails.append({"key": dict(key, what="raised %s: %s" % (type(ex).__name__, str(ex)[:200]), cls=cfg["cls"])})
        return fails, 1, 0.0


def main(tier):
    chk = core.Check("C07", tier)
    chk.rule = ("structure: every configuration of the constructor space in TLC; equation: a seeded stratified sample of the admissible "
                "equivariant configurations x all g in B_d x translations by the period; distinct by configuration; all non-trivial (g ranges over B_d)")
    jobs = []
    for D in ((2,) if tier == "quick" else (2, 3)):
        consts = c20.mc_constants(tier, D)
        consts["Equivs"] = {True}
        # extents for the equation test: at the coarsest level still >= 4, and not a divisor of the dilations, so that odd filters
        # do not degenerate (coinciding taps) and the whitening layers stay well conditioned (DESIGN 5.1)
        consts["DimSet"] = {(6, 6), (8, 6), (8, 8), (16, 16)} if D == 2 else {(4, 4, 4), (6, 4, 4)}
        jobs.append(dict(module_path="mc/MC_Architectures.tla", cfg=tlc.make_cfg(constants=consts, invariants=["AInv", "Emit"]), constants=consts,
                         workers=8, coverage=False, timeout=6000))       # -coverage 1 doubles the run time here; vacuity guard below
    cases = []
    for r in tlc.run_many(jobs, parallel=2):
        chk.add_tlc(r)
        if r.ok and not (len(r.cases) > 100 and r.distinct > 2 * len(r.cases)):      # PickCfg states are emitted, Run states follow each
            raise RuntimeError("vacuity: MC_Architectures visited %d states, %d configurations" % (r.distinct, len(r.cases)))
        if not r.ok:
            chk.spec_violation(r, "architecture invariant fails in the specification itself")
        cases += r.cases
    chk.exhaustive = False
    rng = random.Random(core.SEED + 7)
    cases.sort(key=lambda c: core.canon(c["cfg"]))
    picks = strat_sample(cases, rng, 14 if tier == "quick" else 160)
    # order-0 signatures with a pseudoscalar (mid signature without any block of order >= 1): one more model per class
    # (each with another activation, see equiv_case) -- reflections act on such a network only through the sign of (0,1) blocks
    def scalar_pseudo(c):
        ts = [t for t, _ in c["cfg"]["ins"]] + [t for t, _ in c["cfg"]["outs"]]
        return all(t[0] == 0 for t in ts) and any(t[1] == 1 for t in ts)
    picked = {core.canon(c["cfg"]) for c in picks}
    for cls in ("UNet", "ResNet", "DilResNet"):
        cand = [c for c in cases if scalar_pseudo(c) and c["admissible"] and c["cfg"]["equiv"] and c["stuck"] == "" and c["cfg"]["cls"] == cls
                and core.canon(c["cfg"]) not in picked and not (cls == "DilResNet" and (c["cfg"]["blocks"] > 1 or min(c["cfg"]["dims"]) in (4, 8, 16)))
                and (cls == "UNet" or max(c["cfg"]["dims"]) <= 8) and min(c["cfg"]["dims"]) // (2 ** c["cfg"]["ndown"] if cls == "UNet" else 1) >= 4
                and (cls != "UNet" or c["cfg"]["ndown"] >= 1)]            # the U-Net of this kind must pool (norm-based pooling of a pseudoscalar)
        cand.sort(key=c20.cost)
        cand = cand[: max(4, len(cand) // 6)]
        picks += rng.sample(cand, min(1 if tier == "quick" else 6, len(cand)))
    worst_ok = 0.0
    vacuous = 0
    from harness import equivcalc
    graphs = equivcalc.run_mc(chk)
    for fails, n, mx in core.pmap(equiv_case, [(i, c, core.SEED * 3 + i, graphs) for i, c in enumerate(picks)], procs=14, crash_value=([], 0, 0.0)):
        chk.evaluations += n
        if mx < 0:
            vacuous += 1
            if vacuous > max(1, len(picks) // 4):
                raise RuntimeError("anti-vacuity: %d of %d models have a numerically zero output" % (vacuous, len(picks)))
        worst_ok = max(worst_ok, mx if not fails else 0.0)
        for f in fails:
            chk.report(f["key"], payload=f)
    for c in picks:
        chk.traces += 1
        chk.distinct.add(core.chash(c["cfg"]))
    chk.extra["models_with_zero_output"] = vacuous
    chk.samples.append({"cfg": picks[0]["cfg"], "period": picks[0]["period"]})
    chk.extra["equation_part"] = {"models": len(picks), "tolerance": TOL, "largest_defect_among_passing": worst_ok,
                                  "note": "exploration: sampled parameters and inputs; structure decided by TLC"}
    chk.assumptions = ["TLC/SANY/Json trusted", "the equation is sampled (float32, tolerance 1e-2 relative L2 per block; correct models measure <= 3e-3)",
                       "the code's group action is the one C02 binds to the spec", "inputs are toroidal and compatible with the pooling"]
    return chk.finish()


def replay(path):
    import json
    pl = json.load(open(path))
    core._pool_init()
    cfg = pl["key"]["cfg"]
    case = {"cfg": cfg, "period": 2 ** cfg["ndown"] if cfg["cls"] == "UNet" else 1}
    fails = []
    for i in range(5):
        f, _, _ = equiv_case((i, case, core.SEED * 3 + i))
        fails += f
    for f in fails[:3]:
        print("VIOLATION property=C07 replay=%s" % path)
        print("  detail:", core.canon(f["key"])[:500])
    return 1 if fails else 0
