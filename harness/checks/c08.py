"""C08 -- normalisation, nonlinearity and pooling blocks commute with the group action.

Exact part (spec): Pooling.tla -- AvgPoolNum / Unpool / MaxPoolNorm defined declaratively; Gen_Pooling checks PoolLaws as a
  TLC invariant on every harness-supplied integer image: each operation commutes with EVERY g of B_d and with translations by
  multiples of the patch length (max pooling whenever the per-patch maximum norm is unique), and pooling undoes un-pooling.
  Replay: geom.average_pool / geom.max_pool / GeometricImage.{average_pool,max_pool,unpool} / ml.MaxNormPool equal the spec's
  results exactly, so they inherit the laws.
Float part (code): GroupNorm / LayerNorm / VectorNeuronNonlinear / MaxNormPool with RANDOM scales, biases and mixing weights
  (away from the initial ones / zeros), default eps, every accepted type incl. pseudo-scalars and pseudo-vectors, group
  counts dividing the channels, generic + sparse + constant + zero inputs, d = 2, 3: f(g.x) vs g.f(x) for every g;
  per-block relative defect <= 1e-4 (exploration).
"""
import json
import os
import random

import numpy as np

from harness import equivcalc, core, tlc


def gen_pool_cases(rng, n):
    shapes = [((4, 2), 2), ((2, 4), 2), ((2, 2), 2), ((4, 4), 2), ((2, 2, 2), 2), ((2, 4, 2), 2), ((3, 6), 3), ((3, 3), 3)]
    cases = []
    for i in range(n):
        dims, q = shapes[i % len(shapes)]
        D = len(dims)
        k = rng.choice([0, 0, 1, 1, 2]) if D == 2 else rng.choice([0, 1])
        npx, nc = int(np.prod(dims)), D ** k
        if i % 5 == 4:                      # ties allowed: max pooling is then unspecified (skipped), the rest still checked
            val = [rng.randint(-2, 2) for _ in range(npx * nc)]
        else:                               # unique pixel norms by construction
            lead = rng.sample(range(3, 60), npx)
            val = []
            for px in range(npx):
                comps = [rng.randint(-2, 2) for _ in range(nc)]
                comps[rng.randrange(nc)] = lead[px] * rng.choice([-1, 1])
                val += comps
        cases.append(dict(img=dict(dims=list(dims), k=k, p=rng.randint(0, 1), val=val), q=q))
    return cases


def pool_chunk(chunk):
    import jax.numpy as jnp
    import ginjax.geometric as geom
    import ginjax.ml as ml
    fails, n_eval = [], 0
    for case, exp in chunk:
        im, q = case["img"], case["q"]
        D, k, p = len(im["dims"]), im["k"], im["p"]
        a = np.array(im["val"], dtype=np.float32).reshape(tuple(im["dims"]) + (D,) * k)
        key = {"dims": im["dims"], "k": k, "p": p, "q": q}
        den = exp["den"]
        pshape = tuple(exp["pooled_dims"]) + (D,) * k
        exact = (den & (den - 1)) == 0

        def fail(entry, what):
            fails.append({"key": dict(key, entry=entry, what=what), "case": case})
        try:
            n_eval += 1
            avg = np.asarray(geom.average_pool(D, jnp.asarray(a), q), dtype=np.float64) * den
            want = np.array(exp["avgnum"], dtype=np.float64).reshape(pshape)
            if avg.shape != pshape or not (np.array_equal(avg, want) if exact else np.allclose(avg, want, rtol=2e-6, atol=1e-4)):
                fail("geom.average_pool", "values")
            gi = geom.GeometricImage(jnp.asarray(a), p, D, False)
            o = gi.average_pool(q)
            if (o.k, o.parity, o.D) != (k, p, D) or not np.allclose(np.asarray(o.data) * den, want, rtol=2e-6, atol=1e-4):
                fail("GeometricImage.average_pool", "values / declared type")
            n_eval += 1
            up = gi.unpool(q)
            wantu = np.array(exp["unpool"], dtype=np.float32).reshape(tuple(exp["unpool_dims"]) + (D,) * k)
            if up.data.shape != wantu.shape or not np.array_equal(np.asarray(up.data), wantu) or (up.k, up.parity) != (k, p):
                fail("GeometricImage.unpool", "values / declared type")
            if exp["unique"]:
                n_eval += 1
                wantm = np.array(exp["maxpool"], dtype=np.float32).reshape(pshape)
                mp_ = np.asarray(geom.max_pool(D, jnp.asarray(a), q))
                if mp_.shape != pshape or not np.array_equal(mp_, wantm):
                    fail("geom.max_pool", "values")
                o = gi.max_pool(q)
                if not np.array_equal(np.asarray(o.data), wantm) or (o.k, o.parity) != (k, p):
                    fail("GeometricImage.max_pool", "values / declared type")
                # the layer, vmapped over channels: channel 1 = the image, channel 0 = its negation scaled (same arg-max)
                mi = geom.MultiImage({(k, p): jnp.asarray(np.stack([-2 * a, a]))}, D, False)
                lo = ml.MaxNormPool(q)(mi)
                if not np.array_equal(np.asarray(lo[(k, p)]), np.stack([-2 * wantm, wantm])):
                    fail("ml.MaxNormPool", "values")
        except Exception as ex:
            fail("pooling", "raised %s: %s" % (type(ex).__name__, str(ex)[:200]))
    return fails, n_eval


# ------------------------------------------------------------------------------------------------
# float metamorphic part

def make_input(kind, key, sig, N, D, jr, jnp):
    out = {}
    for j, (t, c) in enumerate(sig):
        shp = (c,) + (N,) * D + (D,) * t[0]
        kk = jr.fold_in(key, j)
        if kind == "generic":
            v = jr.normal(kk, shp)
        elif kind == "sparse":
            v = jr.normal(kk, shp) * (jr.uniform(jr.fold_in(kk, 1), (c,) + (N,) * D + (1,) * t[0]) < 0.15)
        elif kind == "small":      # amplitudes comparable with sqrt(eps): where a misplaced eps shows
            v = 0.05 * jr.normal(kk, shp)
        elif kind == "constant":
            v = jnp.broadcast_to(jr.normal(kk, (c,) + (1,) * D + (D,) * t[0]), shp)
        else:
            v = jnp.zeros(shp)
        out[t] = v
    return out


def float_case(args):
    idx, seed, layer_kind, D, groups, inkind = args
    import jax
    import jax.numpy as jnp
    import jax.random as jr
    import equinox as eqx
    import ginjax.geometric as geom
    import ginjax.ml as ml
    N = 4 if D == 2 else 2
    ops = geom.make_all_operators(D)
    if layer_kind in ("GroupNorm", "LayerNorm"):
        sig = (((0, 0), 4), ((0, 1), 2), ((1, 0), 4), ((1, 1), 2))
        layer = ml.LayerNorm(geom.Signature(sig), D) if layer_kind == "LayerNorm" else ml.GroupNorm(geom.Signature(sig), D, groups)
    elif layer_kind == "VN":
        sig = (((0, 0), 2), ((0, 1), 3), ((1, 0), 3), ((1, 1), 2), ((2, 0), 2))
        layer = ml.VectorNeuronNonlinear(geom.Signature(sig), D, [jax.nn.relu, jax.nn.gelu, jax.nn.tanh][idx % 3], key=jr.PRNGKey(seed))
    else:
        sig = (((0, 0), 2), ((0, 1), 1), ((1, 0), 2), ((1, 1), 1), ((2, 0), 1))
        layer = ml.MaxNormPool(2)
    # random parameter values, away from ones / zeros / the initial draw
    params, static = eqx.partition(layer, eqx.is_inexact_array)
    leaves, tree = jax.tree_util.tree_flatten(params)
    leaves = [l + 0.8 * jr.normal(jr.PRNGKey(seed + 7 * i + 1), l.shape) for i, l in enumerate(leaves)]
    layer = eqx.combine(jax.tree_util.tree_unflatten(tree, leaves), static)
    x = geom.MultiImage(make_input(inkind, jr.PRNGKey(seed + 500), sig, N, D, jr, jnp), D, True)
    key = {"layer": layer_kind, "D": D, "groups": groups, "input": inkind}
    fails = []
    try:
        y = layer(x)
        for gg in ops:
            lhs = layer(x.times_group_element(gg))
            rhs = y.times_group_element(gg)
            for t in rhs.keys():
                a, b = np.asarray(lhs[t], dtype=np.float64), np.asarray(rhs[t], dtype=np.float64)
                if not (np.isfinite(a).all() and np.isfinite(b).all()):
                    fails.append({"key": dict(key, what="non-finite output", type=list(t))})
                    continue
                den = max(np.linalg.norm(a), np.linalg.norm(b), 1e-2 * np.sqrt(a.size))
                defect = float(np.linalg.norm(a - b) / den)
                # the eigh whitening divides by sqrt(eigenvalue + 1e-5): on (near-)singular covariances (sparse inputs)
                # float32 rounding is amplified ~300x (observed 1.3e-4 on the unchanged tree); genuine defects are >= 0.3
                tol = 2e-3 if (layer_kind in ("GroupNorm", "LayerNorm") and t[0] == 1) else 1e-4
                if defect > tol:
                    fails.append({"key": dict(key, what="f(g.x) != g.f(x)", type=list(t), defect=defect, g=np.asarray(gg).tolist())})
        if layer_kind == "MaxNormPool":      # translations by multiples of the patch length
            for ax in range(D):
                xs = geom.MultiImage({t: jnp.roll(v, 2, axis=1 + ax) for t, v in x.items()}, D, True)
                l2 = layer(xs)
                for t in y.keys():
                    if not np.array_equal(np.asarray(l2[t]), np.roll(np.asarray(y[t]), 1, axis=1 + ax)):
                        fails.append({"key": dict(key, what="pooling does not commute with a translation by the patch length", type=list(t))})
    except Exception as ex:
        fails.append({"key": dict(key, what="raised %s: %s" % (type(ex).__name__, str(ex)[:200]))})
    return fails, len(ops)


def main(tier):
    chk = core.Check("C08", tier)
    chk.rule = ("exact cases = integer images (unique per-patch norms by construction, every fifth with ties) x all g in TLC; float cases = "
                "(layer, d, channel groups, input kind) x all g on the code; non-trivial: always (g ranges over the whole group); distinct by case")
    rng = random.Random(core.SEED + 8)
    cases = gen_pool_cases(rng, 32 if tier == "quick" else 240)
    os.makedirs(tlc.WORK, exist_ok=True)
    path = os.path.join(tlc.WORK, "pool_input_%d.json" % os.getpid())
    with open(path, "w") as f:
        json.dump({"cases": cases}, f)
    try:
        r = tlc.run("gen/Gen_Pooling.tla", tlc.make_cfg(invariants=["Laws", "Emit"]), env={"POOL_INPUT": path}, workers=16, coverage=False, timeout=6000)
    finally:
        os.remove(path)
    chk.add_tlc(r, vacuity_actions=("Pick",))
    if not r.ok:
        chk.spec_violation(r, "pooling laws fail in the specification itself")
    exp = {c["n"]: c for c in r.cases}
    items = [(cases[i], exp[i + 1]) for i in range(len(cases))]
    if sum(1 for _, e in items if e["unique"]) < len(items) // 2:
        raise RuntimeError("vacuity: too few max-pool cases with unique maxima")
    for fails, n in core.pmap(pool_chunk, core.shards(items, 16)):
        chk.evaluations += n
        for f in fails:
            chk.report(f["key"], payload=f)
    for c in cases:
        chk.traces += 1
        chk.distinct.add(core.chash(c))
    chk.samples.append({"image": cases[0]["img"], "q": cases[0]["q"], "avg_numerators": exp[1]["avgnum"], "den": exp[1]["den"], "maxpool": exp[1]["maxpool"]})
    # ---- float part --------------------------------------------------------------------------------------
    # ---- typing calculus: EquivCalculus.tla model-checked, its layer graphs bound to the real layers ------------
    graphs = equivcalc.run_mc(chk)
    summ = equivcalc.summarise(equivcalc.bind_all(graphs, tier, kinds=("groupnorm", "vn", "maxnormpool"))) if graphs else {}
    unbound = {k: d["unbound"] for k, d in summ.items() if d["unbound"] or not d["bound"]}
    for k in ("groupnorm", "vn", "maxnormpool"):
        if k not in summ:
            unbound[k] = [[None, "no binding result"]]
    for k, why in sorted(unbound.items()):
        print("NOTE typing calculus not bound to %s on this tree (%s): the all-parameters argument is not established for it; "
              "escalating the numerical equation test" % (k, "; ".join("%s %s" % (t, w) for t, w in why[:3])), flush=True)
    chk.extra["typing_calculus"] = {"graphs_model_checked": len(graphs), "bound": {k: d["bound"] for k, d in summ.items()},
                                    "unbound": unbound,
                                    "meaning": "bound = the real layer equals its well-typed data-flow graph at generic inputs and parameter values, "
                                               "so it commutes with the group for every parameter value (EquivCalculus.tla)"}
    calc_kind = {"GroupNorm": "groupnorm", "LayerNorm": "groupnorm", "VN": "vn", "MaxNormPool": "maxnormpool"}
    fitems = []
    kinds = ["generic", "sparse", "constant", "zero"]
    base_reps = 1 if tier == "quick" else 5
    for rep in range(base_reps + 6):
        for (lk, D, groups) in [("GroupNorm", 2, 2), ("GroupNorm", 2, 1), ("LayerNorm", 2, 1), ("GroupNorm", 3, 2), ("VN", 2, 1), ("VN", 3, 1),
                                ("MaxNormPool", 2, 1), ("MaxNormPool", 3, 1)]:
            esc = calc_kind[lk] in unbound
            if rep >= base_reps and not esc:
                continue
            for ik in kinds + (["small"] if esc else []):
                if lk == "MaxNormPool" and ik != "generic":
                    continue
                fitems.append((len(fitems), core.SEED * 11 + 17 * len(fitems) + rep, lk, D, groups, ik))
    nfl = 0
    for fails, n in core.pmap(float_case, fitems, procs=12):
        chk.evaluations += n
        nfl += n
        for f in fails:
            chk.report(f["key"], payload=f)
    for it in fitems:
        chk.distinct.add(core.chash(it[2:]))
    chk.extra["float_part"] = {"cases": len(fitems), "group_elements_checked": nfl, "tolerance": "1e-4 (2e-3 for the eigh-whitened vector path of GroupNorm/LayerNorm)",
                               "note": "sampling in inputs and parameters (exploration); all array parameters perturbed by N(0,0.8)"}
    chk.assumptions = ["TLC/SANY/Json trusted", "max pooling is specified only for unique per-patch maxima (ties: skipped, not violations)",
                       "float part: tolerance 1e-4 relative per block with an RMS floor of 1e-2 on numerically-zero blocks"]
    return chk.finish()


def replay(path):
    pl = json.load(open(path))
    core._pool_init()
    if "case" in pl:
        p2 = os.path.join(tlc.WORK, "pool_replay.json")
        os.makedirs(tlc.WORK, exist_ok=True)
        json.dump({"cases": [pl["case"]]}, open(p2, "w"))
        r = tlc.run("gen/Gen_Pooling.tla", tlc.make_cfg(invariants=["Laws", "Emit"]), env={"POOL_INPUT": p2}, workers=2)
        os.remove(p2)
        fails, _ = pool_chunk([(pl["case"], r.cases[0])])
    else:
        print("float findings are re-run by the full check (seeded)")
        return 2
    for f in fails[:5]:
        print("VIOLATION property=C08 replay=%s" % path)
        print("  detail:", core.canon(f["key"])[:500])
    return 1 if fails else 0
