"""C15 -- time-series windowing yields exactly the causal (past, future) pairs.

Spec:  TimeSeries.tla -- declarative index formula vs operational sliding cursor; WindowLaws (count, range, time
       order, causality, contiguity, all data used); slot layout of a sample per tensor type.
MC:    every (T, p, f, dt, s) within the bounds with at least one window (and: no window is produced when none fits).
GEN:   per configuration the window table and the slot layouts.
Replay: ginjax.data.time_series_idxs, times_series_to_multi_images and batch_time_series on position-encoding tokens
       (type, channel, time, trajectory, pixel, component), several channels per type, constant fields of types present
       and absent among the dynamic ones, downsample 0/1 (2x2 average pooling: exact), 1..3 trajectories; every entry
       of every input / target block is compared with the token the spec's table places there.
"""
import numpy as np

from harness import core, tlc

MODULE = "mc/MC_TimeSeries.tla"
DYN = [[((0, 0), 2), ((1, 0), 1)], [((1, 0), 3)], [((0, 1), 1), ((0, 0), 2), ((2, 0), 1)], [((0, 0), 1)]]
CONST = [[], [((0, 0), 1)], [((1, 1), 2)], [((1, 0), 1), ((0, 1), 2)]]
TYPE_ID = {(0, 0): 0, (0, 1): 1, (1, 0): 2, (1, 1): 3, (2, 0): 4}
D, SP = 2, (2, 4)


def tok(tid, ch, time, traj, const=False):
    """token array over (pixels, components): value encodes (type, channel, time, trajectory, pixel, component)"""
    def f(k):
        npx, nc = SP[0] * SP[1], D ** k
        pix = np.arange(npx).reshape(SP + (1,) * k)
        comp = np.arange(nc).reshape((1,) * D + (D,) * k)
        base = (((tid + (8 if const else 0)) * 4 + ch) * 16 + time) * 4 + traj
        return ((base * 8 + pix) * 4 + comp).astype(np.float32)
    return f


def pool(a, k, times):
    for _ in range(times):
        s = a.shape
        # spatial axes are the D axes before the k tensor axes
        sp0 = a.ndim - k - D
        a = a.reshape(s[:sp0] + (s[sp0] // 2, 2, s[sp0 + 1] // 2, 2) + s[sp0 + 2:]).mean(axis=(sp0 + 1, sp0 + 3))
    return a


def replay_chunk(chunk):
    import jax.numpy as jnp
    import ginjax.geometric as geom
    import ginjax.data as gdata
    fails, n_eval = [], 0
    for ci, c in chunk:
        T, p, f, dt, s, W = c["T"], c["p"], c["f"], c["dt"], c["s"], c["W"]
        dyn, const = DYN[ci % len(DYN)], CONST[(ci // len(DYN)) % len(CONST)]
        down = (ci // 3) % 2
        ntraj = 1 + ci % 3
        key = {"T": T, "p": p, "f": f, "dt": dt, "s": s, "dyn": [[list(t), n] for t, n in dyn], "const": [[list(t), n] for t, n in const],
               "downsample": down, "trajectories": ntraj}

        def fail(what, **kw):
            fails.append({"key": dict(key, what=what, **kw), "case": {k: c[k] for k in ("T", "p", "f", "dt", "s", "W", "xin", "yout")}})
        # 1. the index function
        n_eval += 1
        try:
            ii, oi = gdata.time_series_idxs(p, f, dt, T - s)
            if (np.asarray(ii) + s).tolist() != c["xin"] or (np.asarray(oi) + s).tolist() != c["yout"]:
                fail("time_series_idxs differs from the window table")
        except Exception as ex:
            fail("time_series_idxs raised %s: %s" % (type(ex).__name__, str(ex)[:200]))
            continue
        # 2. data
        def fields(traj):
            dd = {}
            for (k, par), n in dyn:
                blk = np.stack([tok(TYPE_ID[(k, par)], ch, t, traj)(k) for ch in range(n) for t in range(T)])
                dd[(k, par)] = jnp.asarray(blk)                                   # (c*T, spatial, tensor), time minor
            cc = {}
            for (k, par), n in const:
                cc[(k, par)] = jnp.asarray(np.stack([tok(TYPE_ID[(k, par)], ch, 0, traj, const=True)(k) for ch in range(n)]))
            return geom.MultiImage(dd, D, True), geom.MultiImage(cc, D, True)

        def expected(traj):
            ex, ey = {}, {}
            cdict = {t: n for t, n in const}
            for (k, par), n in dyn:
                slots = c["xslots"][n - 1][cdict.get((k, par), 0)]
                ex[(k, par)] = np.stack([np.stack([
                    tok(TYPE_ID[(k, par)], sl[1], c["xin"][w][sl[2]], traj)(k) if sl[0] == "dyn"
                    else tok(TYPE_ID[(k, par)], sl[1], 0, traj, const=True)(k) for sl in slots]) for w in range(W)])
                ey[(k, par)] = np.stack([np.stack([tok(TYPE_ID[(k, par)], sl[1], c["yout"][w][sl[2]], traj)(k)
                                                   for sl in c["yslots"][n - 1]]) for w in range(W)])
            for (k, par), n in const:
                if (k, par) not in ex:
                    ex[(k, par)] = np.stack([np.stack([tok(TYPE_ID[(k, par)], ch, 0, traj, const=True)(k) for ch in range(n)]) for w in range(W)])
            return ({t: pool(a, t[0], down) for t, a in ex.items()}, {t: pool(a, t[0], down) for t, a in ey.items()})

        def compare(name, got, want, entry):
            if set(got.keys()) != set(want.keys()):
                fail("%s: %s has types %s, expected %s" % (entry, name, sorted(got.keys()), sorted(want.keys())))
                return
            for t in want:
                g = np.asarray(got[t])
                if g.shape != want[t].shape:
                    fail("%s: shape of %s block %s" % (entry, name, list(t)), expected=list(want[t].shape), observed=list(g.shape))
                elif not np.array_equal(g, want[t]):
                    bad = np.argwhere(g != want[t])[0].tolist()
                    fail("%s: a frame of the %s block %s is misplaced" % (entry, name, list(t)), first_bad_index=bad,
                         expected=float(want[t][tuple(bad)]), observed=float(g[tuple(bad)]))
        n_eval += 1
        try:
            dmi, cmi = fields(0)
            X, Y = gdata.times_series_to_multi_images(dmi, cmi, T, p, f, s, dt, down)
            ex, ey = expected(0)
            compare("input", X, ex, "times_series_to_multi_images")
            compare("target", Y, ey, "times_series_to_multi_images")
            if X.D != D or Y.D != D:
                fail("times_series_to_multi_images: D")
        except Exception as ex_:
            fail("times_series_to_multi_images raised %s: %s" % (type(ex_).__name__, str(ex_)[:200]))
            continue
        # 3. batched variant = per-trajectory variant stacked trajectory-major
        n_eval += 1
        try:
            per = [fields(tr) for tr in range(ntraj)]
            db = geom.MultiImage({t: jnp.stack([d[t] for d, _ in per]) for t in per[0][0].keys()}, D, True)
            cb = geom.MultiImage({t: jnp.stack([c_[t] for _, c_ in per]) for t in per[0][1].keys()}, D, True)
            XB, YB = gdata.batch_time_series(db, cb, T, p, f, s, dt, down)
            exs = [expected(tr) for tr in range(ntraj)]
            compare("input", XB, {t: np.concatenate([e[0][t] for e in exs]) for t in exs[0][0]}, "batch_time_series")
            compare("target", YB, {t: np.concatenate([e[1][t] for e in exs]) for t in exs[0][1]}, "batch_time_series")
        except Exception as ex_:
            fail("batch_time_series raised %s: %s" % (type(ex_).__name__, str(ex_)[:200]))
    return fails, n_eval


def main(tier):
    chk = core.Check("C15", tier)
    chk.rule = ("one case per (T,p,f,dt,s) with >= 1 window, each paired with a dynamic/constant signature, downsample and trajectory "
                "count chosen by its index; non-trivial = dt > 1 or s > 0 or p+f > 2; distinct by the configuration")
    consts = dict(MaxT=10, MaxP=3, MaxF=3, MaxDt=3, MaxS=3, MaxC=3) if tier == "thorough" else dict(MaxT=9, MaxP=3, MaxF=3, MaxDt=3, MaxS=2, MaxC=3)
    r = tlc.run(MODULE, tlc.make_cfg(constants=consts, invariants=["Laws", "Emit"]), constants=consts, workers=8, coverage=True, timeout=3000)
    chk.add_tlc(r, vacuity_actions=("Pick",))
    if not r.ok:
        chk.spec_violation(r, "declarative and operational windowing disagree in the specification")
    chk.exhaustive = True
    chk.extra["bounds"] = consts
    cases = sorted(r.cases, key=lambda c: (c["T"], c["p"], c["f"], c["dt"], c["s"]))
    off = core.SEED % 7
    items = [(i + off, c) for i, c in enumerate(cases)]
    for fails, n in core.pmap(replay_chunk, core.shards(items, 48)):
        chk.evaluations += n
        for f in fails:
            chk.report(f["key"], payload=f)
    for c in cases:
        chk.traces += 1
        if c["dt"] > 1 or c["s"] > 0 or c["p"] + c["f"] > 2:
            chk.distinct.add(core.chash([c["T"], c["p"], c["f"], c["dt"], c["s"]]))
    chk.samples = [{k: c[k] for k in ("T", "p", "f", "dt", "s", "W", "xin", "yout")} for c in cases[len(cases) // 2: len(cases) // 2 + 2]]
    chk.assumptions = ["TLC/SANY/Json trusted", "float32 exact on the position tokens (< 2^24) and on 2x2 average pooling of them"]
    return chk.finish()


def replay(path):
    import json
    pl = json.load(open(path))
    k = pl["key"]
    consts = dict(MaxT=k["T"], MaxP=k["p"], MaxF=k["f"], MaxDt=k["dt"], MaxS=k["s"], MaxC=3)
    r = tlc.run(MODULE, tlc.make_cfg(constants=consts, invariants=["Laws", "Emit"]), constants=consts, workers=2)
    core._pool_init()
    cs = [c for c in r.cases if all(c[q] == k[q] for q in ("T", "p", "f", "dt", "s"))]
    fails = []
    for i in range(48):
        f, _ = replay_chunk([(i, cs[0])])
        fails += f
    for f in fails[:5]:
        print("VIOLATION property=C15 replay=%s" % path)
        print("  detail:", core.canon(f["key"])[:500])
    return 1 if fails else 0
