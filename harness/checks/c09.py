"""C09 -- training cannot break equivariance.

Spec:  TrainLoop.tla -- TrainStep's guard "the invariant filter bank changes at most by a common rescaling"; MC_TrainLoop explores every
       bank evolution the guard admits ({same, scaled} per step) together with all loss histories / epoch orders: LoopInv.
       Architectures.tla supplies the admissible equivariant architectures (same generator as C07).
Trace: real ml.train runs (sgd / adam / adamw with weight decay; EpochStop; with and without group norm) on tiny equivariant models are
       recorded -- every StopCheck, MakeBatches, TrainStep (bank before/after compared leaf by leaf: identical, or one common positive
       factor) and the Return -- and validated by Trace_TrainLoop (focus "bank").
Equation (code, exploration): the RETURNED model -- whose parameters must have moved -- is re-checked for model(g.x) = g.model(x) for every
       g (tolerance 1e-2), exactly as in C07.
"""
import random

import numpy as np

from harness import archlib, core, tlc, tracelib

S, PS, V, PV = [0, 0], [0, 1], [1, 0], [1, 1]
B2 = [[0, 0], [1, 0], [1, 1], [2, 0], [2, 1]]


def histories(tier):
    base = dict(D=2, equiv=True, depth=2, blocks=1, nconv=1, preact=False, bank=B2, upbank=B2)
    hs = [
        dict(cfg=dict(base, cls="ResNet", ins=[[S, 1], [V, 1]], outs=[[V, 1], [S, 1]], ndown=0, gn=False, dims=[6, 6]), opt="sgd", epochs=2, L=4, B=2),
        dict(cfg=dict(base, cls="ResNet", ins=[[PS, 1], [V, 1]], outs=[[PS, 1], [V, 1]], ndown=0, gn=True, preact=True, dims=[6, 6]), opt="adamw", epochs=2, L=4, B=2),
        dict(cfg=dict(base, cls="UNet", ins=[[S, 1], [V, 1]], outs=[[V, 1]], ndown=1, gn=False, dims=[8, 8]), opt="adam", epochs=1, L=4, B=2),
    ]
    if tier == "thorough":
        hs += [
            dict(cfg=dict(base, cls="UNet", ins=[[PS, 1], [PV, 1]], outs=[[PS, 1], [V, 1]], ndown=1, gn=True, dims=[8, 8]), opt="adamw", epochs=2, L=6, B=3),
            dict(cfg=dict(base, cls="DilResNet", ins=[[S, 1], [V, 1]], outs=[[V, 1], [S, 1]], ndown=0, gn=True, dims=[6, 6]), opt="adam", epochs=2, L=4, B=2),
            dict(cfg=dict(base, cls="ResNet", ins=[[V, 2]], outs=[[PV, 1], [S, 1]], ndown=0, gn=True, nconv=2, dims=[6, 6]), opt="sgd", epochs=3, L=5, B=2),
            dict(cfg=dict(base, cls="ResNet", ins=[[S, 1], [V, 1]], outs=[[V, 1], [S, 1]], ndown=0, gn=False, dims=[6, 6], bias="mean"), opt="adamw", epochs=2, L=4, B=4),
            dict(cfg=dict(base, cls="UNet", ins=[[S, 2]], outs=[[S, 1], [V, 1]], ndown=1, gn=True, nconv=2, dims=[8, 8]), opt="sgd", epochs=2, L=4, B=2),
        ]
    return hs


def bank_of(model):
    import jax
    import ginjax.ml as ml
    out = []
    for leaf in jax.tree_util.tree_leaves(model, is_leaf=lambda n: isinstance(n, ml.ConvContract)):
        if isinstance(leaf, ml.ConvContract):
            out += [np.asarray(v) for v in jax.tree_util.tree_leaves(leaf.invariant_filters)]
    return out


def train_case(args):
    tid, h, seed, graphs = args
    import jax
    import jax.numpy as jnp
    import jax.random as jr
    import equinox as eqx
    import optax
    import ginjax.geometric as geom
    import ginjax.ml as ml
    from harness import trainrec
    cfg = dict(h["cfg"])
    bias = cfg.pop("bias", "auto")
    D = cfg["D"]
    model0 = archlib.build_model(cfg, seed, use_bias=bias, activation="gelu")
    model0, _ = archlib.perturb(model0, seed + 5, scale=0.2)
    L, B = h["L"], h["B"]

    def data(sig, key, scale=1.0):
        return geom.MultiImage({(t[0], t[1]): scale * jr.normal(jr.fold_in(key, j), (L, c) + tuple(cfg["dims"]) + (D,) * t[0])
                                for j, (t, c) in enumerate(sig)}, D, True)
    X, Y = data(cfg["ins"], jr.PRNGKey(seed + 1)), data(cfg["outs"], jr.PRNGKey(seed + 2))

    def map_and_loss(model, x, y, aux_data):
        pred, aux = jax.vmap(model, in_axes=(0, None), out_axes=(0, None))(x, aux_data)
        return ml.smse_loss(pred, y), aux
    opt = {"sgd": optax.sgd(3e-2), "adam": optax.adam(1e-2), "adamw": optax.adamw(1e-2, weight_decay=0.1)}[h["opt"]]
    rec = trainrec.Recorder(max_epochs=h["epochs"] + 2, scripted=False, bank_of=bank_of)
    fails = []
    key = {"cls": cfg["cls"], "opt": h["opt"], "gn": cfg["gn"], "ins": cfg["ins"], "outs": cfg["outs"]}
    res = None
    try:
        res = rec.run(dict(X=X, Y=Y, map_and_loss=map_and_loss, model=model0, rand_key=jr.PRNGKey(seed), stop_condition=ml.EpochStop(h["epochs"]),
                           batch_size=B, optimizer=opt))
    except Exception as ex:
        rec.events.append({"ev": "Raised", "what": "%s: %s" % (type(ex).__name__, str(ex)[:200])})
    tcfg = dict(kind="epochs", monitor="train", patience=0, mindelta=0, epochs=h["epochs"], L=L, B=B, keyed=True, hasval=False, LV=B, focus="bank")
    trace = {"tid": tid, "cfg": tcfg, "events": rec.events}
    stats = {}
    if res is not None:
        trained = res[0]
        p0 = [np.asarray(l) for l in jax.tree_util.tree_leaves(eqx.filter(model0, eqx.is_inexact_array))]
        p1 = [np.asarray(l) for l in jax.tree_util.tree_leaves(eqx.filter(trained, eqx.is_inexact_array))]
        moved = sum(1 for a, b in zip(p0, p1) if a.shape == b.shape and not np.array_equal(a, b))
        stats["leaves_moved"] = moved
        if moved == 0:
            raise RuntimeError("anti-vacuity: training did not change any parameter")
        stats["bank_after_training"] = trainrec.bank_class(bank_of(model0), bank_of(trained))
        if stats["bank_after_training"] == "changed":
            fails.append({"key": dict(key, what="the invariant filter bank of the returned model is not a common rescaling of the initial bank")})
        ops = geom.make_all_operators(D)
        bad_runs = 0
        worst_all = 0.0
        for attempt in range(3):
            x = archlib.make_input(cfg, seed + 50 * attempt)
            _, worst, shifts = archlib.equivariance_defects(trained, x, ops, period=2 ** cfg["ndown"] if cfg["cls"] == "UNet" else 1)
            mx = max([w["defect"] for w in worst] + [s["defect"] for s in shifts])
            worst_all = max(worst_all, mx)
            if mx <= 1e-2 and attempt == 0:
                break
            bad_runs += 1 if mx > 1e-2 else 0
        stats["max_defect_after_training"] = worst_all
        if bad_runs >= 2:
            fails.append({"key": dict(key, what="the trained model is no longer equivariant", defect=worst_all)})
        # typing calculus at the TRAINED parameter values: every ConvContract / GroupNorm / VectorNeuronNonlinear instance of the returned
        # model must still be its well-typed data-flow graph (EquivCalculus.tla); an instance that is not gets a layer-level equation
        # test at its trained parameters (tolerance 1e-4 / 2e-3 instead of the model-level 1e-2)
        from harness import equivcalc
        calc = {"instances": 0, "bound": 0, "unbound": []}
        for li, layer in enumerate(equivcalc.layer_instances(trained)):
            calc["instances"] += 1
            bad = [r for r in equivcalc.bind_instance(layer, D, graphs, seed + li) if r[2] != "bound"]
            if not bad:
                calc["bound"] += 1
                continue
            d1, t1, tol = equivcalc.instance_defect(layer, D, seed + li)
            d2, t2, _ = equivcalc.instance_defect(layer, D, seed + li + 1000)
            calc["unbound"].append({"layer": type(layer).__name__, "why": [list(map(str, r[1:])) for r in bad[:2]], "layer_defects": [d1, d2]})
            if d1 > tol and d2 > tol:
                fails.append({"key": dict(key, what="a layer of the trained model does not commute with the group (layer-level test at the trained parameters)",
                                          layer=type(layer).__name__, type=t1, defect=max(d1, d2))})
        stats["typing_calculus"] = calc
    return trace, fails, stats, key


def main(tier):
    chk = core.Check("C09", tier)
    chk.rule = ("one training history per (architecture, optimiser, epochs, L, B): trace validated by TLC, returned model re-checked for all g; "
                "distinct by history; all non-trivial (parameters must have moved)")
    # design: every admissible bank evolution x loss histories x epoch orders
    loops = [dict(Kind="epochs", Monitor="train", Patience=0, MinDelta=0, Epochs=2, L=4, B=2, HasVal=False, Alphabet={1, 2}, MaxEpoch=3),
             dict(Kind="patience", Monitor="train", Patience=1, MinDelta=0, Epochs=0, L=3, B=1, HasVal=False, Alphabet={1, 2}, MaxEpoch=3)]
    jobs = [dict(module_path="mc/MC_TrainLoop.tla", cfg=tlc.make_cfg(constants=c, invariants=["LoopInv"], constraint="Bound"), constants=c,
                 coverage=True, workers=4) for c in loops]
    for r in tlc.run_many(jobs, parallel=2):
        chk.add_tlc(r, vacuity_actions=("StopCheck", "MakeBatches", "DoTrainStep", "Return"))
        if not r.ok:
            chk.spec_violation(r, "training-loop design invariant fails in the specification")
    hs = histories(tier)
    from harness import equivcalc
    graphs = equivcalc.run_mc(chk)
    results = core.pmap(train_case, [(i + 1, h, core.SEED * 5 + i, graphs) for i, h in enumerate(hs)], procs=8, crash_value=None)
    results = [r for r in results if r is not None]
    verdicts = tracelib.validate(chk, "trace/Trace_TrainLoop.tla", [t for t, _, _, _ in results], workers=4)
    for (trace, fails, stats, key), h in zip(results, hs):
        chk.evaluations += 1
        chk.traces += 1
        chk.distinct.add(core.chash(h))
        v = verdicts[trace["tid"]]
        if v[0] == "REJECT":
            ev = trace["events"][v[1] - 1]
            chk.report(dict(key, what="ml.train trace rejected: " + v[2], event_index=v[1], event={k: ev[k] for k in ev if k not in ("obs", "x", "y")}),
                       payload={"history": h})
        for f in fails:
            chk.report(f["key"], payload={"history": h})
        chk.samples.append({"history": {k: h[k] for k in ("opt", "epochs", "L", "B")}, "cls": h["cfg"]["cls"], "stats": stats,
                            "events": [e["ev"] + (":" + e.get("bank", "") if e["ev"] == "TrainStep" else "") for e in trace["events"]]})
    chk.samples = chk.samples[:4]
    chk.extra["equation_part"] = "exploration: returned models re-checked numerically (tolerance 1e-2), as in C07"
    chk.assumptions = ["TLC/SANY/Json trusted", "bank comparison: bit-identical or a common positive factor to 1e-5 relative",
                       "histories are short (<= 3 epochs) on tiny models; optimisers sgd / adam / adamw(weight_decay)"]
    return chk.finish()


def replay(path):
    import json
    pl = json.load(open(path))
    core._pool_init()
    from harness import equivcalc
    chk = core.Check("C09", "quick")
    trace, fails, stats, key = train_case((1, pl["history"], core.SEED * 5, equivcalc.run_mc(chk)))
    v = tracelib.validate(chk, "trace/Trace_TrainLoop.tla", [trace], workers=2)[1]
    bad = list(fails)
    if v[0] == "REJECT":
        bad.append({"key": {"what": v[2]}})
    for f in bad:
        print("VIOLATION property=C09 replay=%s" % path)
        print("  detail:", core.canon(f["key"])[:400])
    return 1 if bad else 0
