"""C02 -- the group action on images is a genuine, type-correct group action.

Spec:  Hyperoctahedral.tla, GeomImage.tla (Act), instance mc/MC_GroupAction.tla
MC:    group axioms, pair laws, MovePix laws (bijection, composition incl. intermediate shape),
       Act laws (identity, inverse, composition, signed permutation, per-pixel norm) -- exhaustive
       over the shapes/types/elements below.
GEN:   for every (shape, k, p, g) the signed permutation of entries Act(g, Token).val.
Replay (spec -> code): the three entry points (array level, GeometricImage, MultiImage with 0/1/2
       leading axes) on token arrays, on random integer arrays (linearity) and on the full basis for
       small shapes; declared D/k/parity/extents/flags after the call; group sets make_all_operators
       and make_C2_group against B(D) / Flips(D); composition and inverse directly on the code.
"""
import itertools
import random

import numpy as np

from harness import core, tlc

MODULE = "mc/MC_GroupAction.tla"


def instances(tier):
    if tier == "quick":
        return [
            dict(D=1, Shapes={(1,), (2,), (3,), (4,)}, Ks={0}, PairShapes={(3,), (4,)}, PairKs={0}),
            dict(D=2, Shapes={(a, b) for a in range(1, 5) for b in range(1, 5)}, Ks={0, 1, 2, 3},
                 PairShapes={(2, 3), (3, 3), (1, 4), (4, 2)}, PairKs={0, 1, 2}),
            dict(D=3, Shapes={(2, 2, 2), (3, 3, 3), (1, 2, 3), (2, 3, 4), (2, 2, 3)}, Ks={0, 1, 2},
                 PairShapes={(1, 2, 3), (2, 3, 4)}, PairKs={0, 1}),
            dict(D=3, Shapes={(2, 3, 1), (3, 2, 2)}, Ks={3}, PairShapes=set(), PairKs=set()),
        ]
    return [
        dict(D=1, Shapes={(n,) for n in range(1, 7)}, Ks={0}, PairShapes={(n,) for n in range(1, 7)}, PairKs={0}),
        dict(D=2, Shapes={(a, b) for a in range(1, 6) for b in range(1, 6)}, Ks={0, 1, 2, 3},
             PairShapes={(a, b) for a in range(1, 5) for b in range(1, 5)}, PairKs={0, 1, 2}),
        dict(D=3, Shapes={(a, b, c) for a in range(1, 5) for b in range(1, 5) for c in range(1, 5)}, Ks={0, 1},
             PairShapes={(1, 2, 3), (2, 3, 4), (4, 1, 2), (3, 3, 2)}, PairKs={0, 1}),
        dict(D=3, Shapes={(a, b, c) for a in range(1, 4) for b in range(1, 4) for c in range(1, 4)}, Ks={2},
             PairShapes={(1, 2, 3), (3, 1, 2)}, PairKs={2}),
        dict(D=3, Shapes={(2, 3, 1), (3, 2, 2), (1, 2, 3), (2, 2, 2)}, Ks={3}, PairShapes=set(), PairKs=set()),
    ]


# ------------------------------------------------------------------------------------------------
# replay of one chunk of cases (runs in a worker process)

def _flags_for(case_idx, D):
    combos = list(itertools.product([True, False], repeat=D))
    return combos[case_idx % len(combos)]


def replay_chunk(args):
    chunk, seed, tier = args
    import jax.numpy as jnp
    import ginjax.geometric as geom
    rng = random.Random(seed)
    fails = []
    n_eval = 0
    for ci, c in chunk:
        D, dims, k, p = c["d"], tuple(c["dims"]), c["k"], c["p"]
        gg = np.array(c["mat"])
        val = np.array(c["val"], dtype=np.int64)
        perm, sign = np.abs(val) - 1, np.sign(val)
        odims = tuple(c["odims"])
        oshape = odims + (D,) * k
        n = val.size
        flags = _flags_for(ci, D)
        oflags = tuple(flags[a - 1] for a in c["axes"])
        key = {"d": D, "dims": list(dims), "k": k, "p": p, "g": c["g"]}

        def fail(entry, what, exp=None, obs=None):
            fails.append({"key": dict(key, entry=entry, what=what), "case": c,
                          "expected": None if exp is None else np.asarray(exp).ravel().tolist()[:64],
                          "observed": None if obs is None else np.asarray(obs).ravel().tolist()[:64]})

        tok = np.arange(1, n + 1, dtype=np.float32).reshape(dims + (D,) * k)
        rnd = np.array([rng.randint(-5, 5) for _ in range(n)], dtype=np.float32).reshape(dims + (D,) * k)
        inputs = [("token", tok, val.astype(np.float32)), ("randint", rnd, sign * rnd.ravel()[perm])]
        if n <= (12 if tier == "quick" else 32):
            for j in range(n):
                e = np.zeros(n, dtype=np.float32)
                e[j] = 1.0
                inputs.append(("basis%d" % j, e.reshape(tok.shape), sign * e[perm]))
        # 1. array-level entry point
        for name, x, exp in inputs:
            n_eval += 1
            try:
                out = np.asarray(geom.times_group_element(D, jnp.asarray(x), p, gg))
            except Exception as ex:  # the spec enables every (g, image): an exception is a violation
                fail("geom.times_group_element", "raised %s: %s" % (type(ex).__name__, str(ex)[:200]))
                continue
            if out.shape != oshape:
                fail("geom.times_group_element", "shape", oshape, out.shape)
            elif not np.array_equal(out.ravel(), exp):
                fail("geom.times_group_element", "values(%s)" % name.rstrip("0123456789"), exp, out)
        # 2. single-image entry point: values + declared metadata
        if not (D == 1 and k > 0):
            n_eval += 1
            try:
                img = geom.GeometricImage(jnp.asarray(tok), p, D, flags)
                o = img.times_group_element(gg)
                if not np.array_equal(np.asarray(o.data).ravel(), val.astype(np.float32)) or o.data.shape != oshape:
                    fail("GeometricImage.times_group_element", "values", val, o.data)
                if (o.D, o.k, o.parity) != (D, k, p):
                    fail("GeometricImage.times_group_element", "D/k/parity", [D, k, p], [o.D, o.k, o.parity])
                if tuple(o.spatial_dims) != odims:
                    fail("GeometricImage.times_group_element", "spatial_dims", odims, o.spatial_dims)
                if tuple(o.is_torus) != oflags:
                    fail("GeometricImage.times_group_element", "is_torus", [int(b) for b in oflags],
                         [int(b) for b in o.is_torus])
            except Exception as ex:
                fail("GeometricImage.times_group_element", "raised %s: %s" % (type(ex).__name__, str(ex)[:200]))
            # 3. multi-image entry point, 0 / 1 / 2 leading axes of distinct sizes
            leads = [(), (2,), (3, 2)]
            for lead in ([leads[ci % 3]] if tier == "quick" else leads):
                n_eval += 1
                try:
                    nl = int(np.prod(lead)) if lead else 1
                    blk = np.stack([tok + n * li for li in range(nl)]).reshape(lead + tok.shape)
                    other_type = (0, 1 - p) if k > 0 else (1, p) if D > 1 else (0, 1 - p)
                    ok_, op_ = other_type
                    oth = np.arange(1, nl * int(np.prod(dims)) * D ** ok_ + 1, dtype=np.float32).reshape(
                        lead + dims + (D,) * ok_)
                    data = {(k, p): jnp.asarray(blk), (ok_, op_): jnp.asarray(oth)}
                    if not lead:
                        # with no leading axis the library's append() accepts only one type per
                        # multi-image (documented in DESIGN 5.1): single-type there
                        data = {(k, p): jnp.asarray(blk)}
                    mi = geom.MultiImage(data, D, flags)
                    o = mi.times_group_element(gg)
                    exp = np.stack([sign * (np.abs(val) + n * li) for li in range(nl)]).reshape(lead + oshape)
                    got = np.asarray(o[(k, p)])
                    if got.shape != exp.shape or not np.array_equal(got, exp.astype(np.float32)):
                        fail("MultiImage.times_group_element", "values(lead=%s)" % (list(lead),), exp, got)
                    if set(o.keys()) != set(data.keys()) or o.D != D:
                        fail("MultiImage.times_group_element", "types/D", None, list(o.keys()))
                    if tuple(o.get_spatial_dims()) != odims:
                        fail("MultiImage.times_group_element", "spatial_dims", odims, o.get_spatial_dims())
                    if tuple(o.is_torus) != oflags:
                        fail("MultiImage.times_group_element", "is_torus", [int(b) for b in oflags],
                             [int(b) for b in o.is_torus])
                    # the other block must be the single-image result for its own type
                    ref = np.stack([np.asarray(geom.times_group_element(D, jnp.asarray(im), op_, gg))
                                    for im in oth.reshape((nl,) + dims + (D,) * ok_)]).reshape(
                        lead + odims + (D,) * ok_)
                    if lead and not np.array_equal(np.asarray(o[(ok_, op_)]), ref):
                        fail("MultiImage.times_group_element", "second block differs from array-level result")
                except Exception as ex:
                    fail("MultiImage.times_group_element", "raised(lead=%s) %s: %s" % (list(lead), type(ex).__name__, str(ex)[:200]))
    return fails, n_eval


def pairs_chunk(args):
    """Composition / inverse / identity directly on the code (matrices multiplied by numpy)."""
    items, seed = args
    import jax.numpy as jnp
    import ginjax.geometric as geom
    fails, n_eval = [], 0
    for D, dims, k, p, G, H in items:
        G, H = np.array(G), np.array(H)
        n = int(np.prod(dims)) * D ** k
        tok = jnp.asarray(np.arange(1, n + 1, dtype=np.float32).reshape(tuple(dims) + (D,) * k))
        n_eval += 1
        try:
            a = geom.times_group_element(D, geom.times_group_element(D, tok, p, H), p, G)
            b = geom.times_group_element(D, tok, p, G @ H)
            inv = geom.times_group_element(D, geom.times_group_element(D, tok, p, G), p, G.T)
            ok = a.shape == b.shape and np.array_equal(np.asarray(a), np.asarray(b))
            ok_inv = inv.shape == tok.shape and np.array_equal(np.asarray(inv), np.asarray(tok))
        except Exception as ex:
            ok, ok_inv = False, False
        if not ok:
            fails.append({"key": {"d": D, "dims": list(dims), "k": k, "p": p, "what": "composition on code",
                                  "G": G.tolist(), "H": H.tolist()}})
        if not ok_inv:
            fails.append({"key": {"d": D, "dims": list(dims), "k": k, "p": p, "what": "inverse on code",
                                  "G": G.tolist()}})
    return fails, n_eval


def is_axis_permuting(c):
    return c["g"]["p"] != sorted(c["g"]["p"])


def main(tier):
    chk = core.Check("C02", tier)
    chk.rule = ("cases = every (shape, k, parity, g) state of MC_GroupAction; a case is non-trivial when g is not "
                "the identity; distinct by (d, dims, k, p, g)")
    insts = instances(tier)
    jobs = []
    for c in insts:
        consts = dict(c, EmitCases=True)
        jobs.append(dict(module_path=MODULE, cfg=tlc.make_cfg(constants=consts, invariants=["Laws", "Emit"]),
                         constants=consts, coverage=True, workers=8, timeout=3000))
    results = tlc.run_many(jobs, parallel=3)
    cases, groups = [], {}
    for r in results:
        chk.add_tlc(r, vacuity_actions=("PickShape", "PickG"))
        if not r.ok:
            chk.spec_violation(r, "group-action laws fail in the specification itself")
        for c in r.cases:
            if c["kind"] == "groups":
                groups[c["d"]] = c
            else:
                cases.append(c)
    chk.exhaustive = True
    chk.extra["instances"] = [{k: (sorted(v) if isinstance(v, set) else v) for k, v in c.items()} for c in insts]

    # ---- group sets: spec B(D) / Flips(D) vs make_all_operators / make_C2_group ------------------
    import ginjax.geometric as geom
    for D, g in sorted(groups.items()):
        full = {tuple(map(tuple, m)) for m in g["full"]}
        flips = {tuple(map(tuple, m)) for m in g["flips"]}
        code_full = [tuple(map(tuple, np.asarray(m).astype(int).tolist())) for m in geom.make_all_operators(D)]
        code_flips = [tuple(map(tuple, np.asarray(m).astype(int).tolist())) for m in geom.make_C2_group(D)]
        chk.case({"groups": D})
        if set(code_full) != full or len(code_full) != len(full):
            chk.report({"what": "make_all_operators(D) is not B(D)", "d": D})
        if set(code_flips) != flips or len(code_flips) != len(flips):
            chk.report({"what": "make_C2_group(D) is not the flip group", "d": D})

    # ---- replay the signed permutations --------------------------------------------------------
    indexed = list(enumerate(cases))
    random.Random(core.SEED).shuffle(indexed)
    chunks = [(ch, core.SEED * 1000 + i, tier) for i, ch in enumerate(core.shards(indexed, 64))]
    for fails, n_eval in core.pmap(replay_chunk, chunks):
        chk.evaluations += n_eval
        for f in fails:
            chk.report(f["key"], payload=f)
    for c in cases:
        chk.distinct.add(core.chash([c["d"], c["dims"], c["k"], c["p"], c["g"]])) if c["mat"] != np.eye(c["d"], dtype=int).tolist() else None
        chk.traces += 1
    chk.samples = [{k: c[k] for k in ("d", "dims", "k", "p", "g", "odims", "val")} for c in cases[:2]]

    # ---- composition and inverse on the code ------------------------------------------------------
    rng = random.Random(core.SEED + 7)
    items = []
    for inst in insts:
        D = inst["D"]
        mats = [np.array(m) for m in groups[D]["full"]]
        shapes = sorted(inst["PairShapes"]) or sorted(inst["Shapes"])[:1]
        for dims in shapes:
            for k in sorted(inst["PairKs"]) or [min(inst["Ks"])]:
                prs = list(itertools.product(range(len(mats)), repeat=2))
                if len(prs) > (64 if tier == "quick" else 600):
                    prs = rng.sample(prs, 64 if tier == "quick" else 600)
                for a, b in prs:
                    items.append((D, list(dims), k, rng.randint(0, 1), mats[a].tolist(), mats[b].tolist()))
    for fails, n_eval in core.pmap(pairs_chunk, [(ch, 0) for ch in core.shards(items, 32)]):
        chk.evaluations += n_eval
        for f in fails:
            chk.report(f["key"], payload=f)
    chk.assumptions = [
        "TLC / SANY / CommunityModules Json are trusted",
        "float32 arithmetic is exact on the integer-valued arrays used (|v| < 2^24)",
        "exhaustive only within the listed shapes and tensor orders",
    ]
    return chk.finish()


def replay(path):
    import json
    with open(path) as f:
        pl = json.load(f)
    core._pool_init()
    if "case" in pl:
        fails, _ = replay_chunk(([(0, pl["case"])], core.SEED, "thorough"))
        # flags depend on the case index; try every index class
        for ci in range(1, 8):
            f2, _ = replay_chunk(([(ci, pl["case"])], core.SEED, "thorough"))
            fails += f2
        for f in fails[:5]:
            print("VIOLATION property=C02 replay=%s" % path)
            print("  detail:", core.canon(f["key"])[:400])
        return 1 if fails else 0
    print("replay file has no case; re-run the full check")
    return 2
