"""C18 -- losses compute their definition, pair blocks by type and are symmetry-invariant.

Spec:  Losses.tla (integer numerators over declared denominators: SmseNum, StepNum, NormTerms), queried through
       MultiImageStore!LossOp on arguments built by every insertion order / constructor-vs-append / pytree round trip.
MC:    LossLaws on every store state: pairing by type (equal to the canonically re-ordered arguments for every
       reachable pair of storage orders), >= 0, zero iff equal, sum of per-step losses = total, normalised numerators
       sum to the plain numerator, invariance under every g of the group applied to both arguments.
Replay: smse_loss (both reduce modes), timestep_smse_loss (mean / max / None), normalized_smse_loss (exact eps 2^-10
       and the default) compared with float64(numerator)/denominator (2e-6 relative; a mis-pairing moves a numerator
       by >= 1); zero on equal arguments exactly; invariance re-evaluated on the code.
"""
import itertools

from harness import core, storereplay, tlc

MODULE = "MultiImageStore.tla"


def instances(tier):
    allp = set(itertools.permutations([1, 2, 3]))
    base = dict(Names={"a", "b"}, ValMode="small", EmitOps={"Loss"}, EmitDepth=0, TerminalOps={"Loss"})
    out = [
        dict(base, D=2, Dims=(1, 2), Torus=(True, False), TypeList=(((0, 0), (2, 4)), ((0, 1), (2, 4)), ((1, 0), (2, 2))),   # S=2: two channels per step
             Ops={"New", "BuildAppend", "Loss"}, MaxDepth=3, Orders=allp,
             LossGroup=tlc.Raw('{[p |-> <<2, 1>>, s |-> <<-1, 1>>], [p |-> <<1, 2>>, s |-> <<-1, 1>>], [p |-> <<2, 1>>, s |-> <<1, 1>>]}')),
        dict(base, D=2, Dims=(1, 3), Torus=(False, False), TypeList=(((2, 0), (3, 2)), ((1, 1), (3, 2))),   # a k=2 block: the pixel norm runs over all tensor axes
             Ops={"New", "RoundTrip", "Loss"}, MaxDepth=4, Orders={(1, 2), (2, 1)},
             LossGroup=tlc.Raw('{[p |-> <<2, 1>>, s |-> <<1, -1>>], [p |-> <<1, 2>>, s |-> <<1, -1>>], [p |-> <<2, 1>>, s |-> <<-1, -1>>]}')),
        dict(base, D=3, Dims=(1, 2, 1), Torus=(True, True, False), TypeList=(((1, 0), (2, 2)), ((0, 1), (2, 6)), ((0, 0), (2, 6))),
             Ops={"New", "Loss"}, MaxDepth=3, Orders={(1, 2, 3), (3, 1, 2), (2, 3, 1)},
             LossGroup=tlc.Raw('{[p |-> <<2, 3, 1>>, s |-> <<1, -1, 1>>], [p |-> <<2, 1, 3>>, s |-> <<-1, 1, 1>>]}')),
    ]
    if tier == "thorough":
        out += [
            dict(base, D=2, Dims=(2, 2), Torus=(True, True), TypeList=(((0, 0), (3, 4)), ((1, 0), (3, 2)), ((2, 1), (3, 2))),
                 Ops={"New", "BuildAppend", "RoundTrip", "Loss"}, MaxDepth=4, Orders=allp, LossGroup=tlc.Raw("B(2)")),
            dict(base, D=3, Dims=(2, 1, 2), Torus=(False, True, False), TypeList=(((1, 1), (2, 2)), ((0, 0), (2, 6)), ((2, 0), (2, 2))),
                 Ops={"New", "RoundTrip", "Loss"}, MaxDepth=4, Orders={(1, 2, 3), (3, 1, 2), (2, 3, 1), (3, 2, 1)}, LossGroup=tlc.Raw("Rotations(3)")),
        ]
    return out


def main(tier):
    chk = core.Check("C18", tier)
    chk.rule = ("behaviours = build a ; build b ; [round trips] ; Loss; non-trivial = the two arguments' storage orders differ; "
                "distinct by the whole history")
    insts = instances(tier)
    jobs = [dict(module_path=MODULE, cfg=tlc.make_cfg(constants=c, invariants=["LossLaws", "Emit"], constraint="InOrder"),
                 constants=c, coverage=False, workers=6, timeout=6000) for c in insts]
    behaviours = []
    for r in tlc.run_many(jobs, parallel=3):
        chk.add_tlc(r, vacuity_actions=("New", "LossOp"))
        if not r.ok:
            chk.spec_violation(r, "loss laws fail in the specification itself")
        behaviours += [c["hist"] for c in r.cases]
    chk.exhaustive = True
    core.require_ops(behaviours, ["New", "BuildAppend", "RoundTrip", "Loss"])
    for fails, n in core.pmap(storereplay.replay_chunk, core.shards(behaviours, 64)):
        chk.evaluations += n
        chk.traces += n
        for f in fails:
            chk.report(f["key"], payload=f)
    for h in behaviours:
        ords = {}
        for s in h[:-1]:
            ords[s["x"]] = s["after"]["order"]
        if ords.get("a") != ords.get("b"):
            chk.distinct.add(core.chash(h))
    h = behaviours[len(behaviours) // 2]
    chk.samples = [{"ops": [s["op"] for s in h], "orders": [s["after"]["order"] for s in h[:-1]],
                    "smse_numerators": h[-1]["smse"], "npix": h[-1]["npix"], "step_numerators": h[-1]["steps"]}]
    chk.assumptions = ["TLC/SANY/Json trusted", "losses compared to 2e-6 relative (float32 division/accumulation), normalised variant 2e-5",
                       "small signed integer data so every numerator is exact"]
    return chk.finish()


def replay(path):
    import json
    pl = json.load(open(path))
    core._pool_init()
    fails, _ = storereplay.replay_chunk([pl["hist"]])
    for f in fails:
        print("VIOLATION property=C18 replay=%s" % path)
        print("  detail:", core.canon(f["key"])[:500])
    return 1 if fails else 0
