"""Shared machinery of C01 (equivariance of convolution) and C04 (convolution = its definition).

spec/Convolution.tla is the single source of truth.  Three bindings to the code:
  * tap tables: MC_Convolution emits TapTable(c) for selected lattice cells; one geom.convolve call
    on a token image with one-hot filters reveals the code's table, compared exactly (=> the cell is
    decided for all real images and filters, by bilinearity);
  * values: Gen_ConvValue computes Convolve / ConvContract on harness-supplied random integer
    batches; compared exactly with geom.convolve, convolve_ravel, convolve_contract,
    GeometricImage.convolve_with (layout of tensor indices, channels, batch, declared type);
  * equivariance / translation on the code itself (C01), with the group action taken from the code
    (which C02 binds to the spec).
"""
import itertools
import json
import os
import random

import numpy as np

from harness import convlib, core, tlc

MC = "mc/MC_Convolution.tla"
GEN = "gen/Gen_ConvValue.tla"


# ------------------------------------------------------------------------------------------------
# lattice runs

def run_lattices(chk, lattices, invariants=("Laws", "Emit"), parallel=2, workers=8, coverage=True):
    """`coverage` (TLC -coverage 1: per-action counts for the vacuity guard) costs ~2.5x on this spec; the thorough tier
    turns it off and the guard is the state count instead (cells and (cell, g) pairs exist beyond the shards)."""
    jobs = []
    for consts in lattices:
        jobs.append(dict(module_path=MC, cfg=tlc.make_cfg(constants=consts, invariants=list(invariants)),
                         constants=consts, coverage=coverage, workers=workers, timeout=12000))
    tables = []
    for r in tlc.run_many(jobs, parallel=parallel):
        need = ("PickCfg",) + (("PickG",) if r.constants.get("GroupMode") != "none" else ())
        chk.add_tlc(r, vacuity_actions=need)
        shards_n = len(r.constants["Ns"]) * len(r.constants["Ms"])
        cells = r.distinct - 1 - shards_n
        if r.ok and (cells < max(1, shards_n // 4) or (r.constants.get("GroupMode") != "none" and cells < shards_n // 2)):
            raise RuntimeError("vacuity: lattice run of %s visited only %d states for %d shards" % (r.module, r.distinct, shards_n))
        if not r.ok:
            chk.spec_violation(r, "convolution laws fail in the specification itself")
        tables += [c for c in r.cases if c["kind"] == "taptable"]
    return tables


def _replay_tables_chunk(chunk):
    import jax.numpy as jnp
    import ginjax.geometric as geom
    fails = []
    for idx, case in chunk:
        cfg = case["cfg"]
        key = {"cfg": cfg}
        for variant in (idx % 7, (idx % 7) + 7):
            try:
                odims, tab, integral = convlib.code_tap_table(geom, jnp, cfg, variant)
            except Exception as ex:
                fails.append({"key": dict(key, what="geom.convolve raised on an admissible configuration",
                                          err="%s: %s" % (type(ex).__name__, str(ex)[:300]), variant=variant)})
                continue
            if list(odims) != list(case["out"]):
                fails.append({"key": dict(key, what="output shape", variant=variant),
                              "expected": case["out"], "observed": list(odims)})
            elif tab != case["table"] or not integral:
                bad = [i for i, (a, b) in enumerate(zip(tab, case["table"])) if a != b][:8]
                fails.append({"key": dict(key, what="tap table", variant=variant),
                              "expected": case["table"], "observed": tab, "first_bad_entries": bad,
                              "code_args": {k: str(v) for k, v in convlib.code_args(cfg, variant).items()}})
    return fails, 2 * len(chunk)


def replay_tables(chk, tables, nontrivial=lambda c: True):
    idx = list(enumerate(tables))
    random.Random(core.SEED).shuffle(idx)
    for fails, n in core.pmap(_replay_tables_chunk, core.shards(idx, 64), split=lambda ch: [[x] for x in ch]):
        chk.evaluations += n
        for f in fails:
            chk.report(f["key"], payload=f)
    for c in tables:
        chk.traces += 1
        if nontrivial(c):
            chk.distinct.add(core.chash(c["cfg"]))
    if tables:
        chk.samples.append({"cfg": tables[0]["cfg"], "out": tables[0]["out"], "table": tables[0]["table"][:40]})


# ------------------------------------------------------------------------------------------------
# value-level cases

def _py_out(cfg):
    """Mirror of Convolution!Out, used only to discard inadmissible *random draws* (never for verdicts;
    the spec re-checks Admissible and reports `adm`)."""
    out = []
    for j in range(len(cfg["N"])):
        M, N, rd, ld, st = cfg["M"][j], cfg["N"][j], cfg["rdil"][j], cfg["ldil"][j], cfg["stride"][j]
        half = ((M - 1) // 2) * rd
        mode = cfg["mode"]
        wrap = half if (mode == "TORUS" and cfg["torus"][j]) else 0
        if mode == "TORUS":
            lo = hi = 0 if cfg["torus"][j] else half
        elif mode == "SAME":
            lo = hi = half
        elif mode == "VALID":
            lo = hi = 0
        else:
            lo, hi = cfg["pad"][j]
        L = (N + 2 * wrap - 1) * ld + 1
        out.append((L + lo + hi - ((M - 1) * rd + 1)) // st + 1 if L + lo + hi >= (M - 1) * rd + 1 else 0)
    return out


def random_cfg(rng, D, symmetric_unit=False, maxN=3, maxM=3):
    while True:
        N = [rng.randint(1, maxN) for _ in range(D)]
        mode = rng.choice(["TORUS", "SAME", "VALID", "EXPL", "EXPL"])
        if mode in ("TORUS", "SAME"):
            M = [rng.choice([1, 3][: 2 if maxM >= 3 else 1]) for _ in range(D)]
        else:
            M = [rng.randint(1, maxM) for _ in range(D)]
        torus = [rng.random() < 0.5 for _ in range(D)] if mode == "TORUS" else [False] * D
        pad = [[0, 0]] * D
        if mode == "EXPL":
            if symmetric_unit or rng.random() < 0.4:
                pad = [[a, a] for a in (rng.randint(0, 2) for _ in range(D))]
            else:
                pad = [[rng.randint(0, 2), rng.randint(0, 2)] for _ in range(D)]
        stride = [1] * D if symmetric_unit else [rng.choice([1, 1, 2, 3]) for _ in range(D)]
        rdil = [rng.choice([1, 1, 2]) for _ in range(D)]
        ldil = [rng.choice([1, 1, 2]) for _ in range(D)]
        cfg = dict(N=N, M=M, torus=torus, mode=mode, pad=pad, stride=stride, rdil=rdil, ldil=ldil)
        o = _py_out(cfg)
        if all(x >= 1 for x in o) and int(np.prod(o)) <= 40:
            return cfg


def random_image(rng, dims, D, k, p, lim=3):
    n = int(np.prod(dims)) * D ** k
    return dict(dims=list(dims), k=k, p=p, val=[rng.randint(-lim, lim) for _ in range(n)])


def make_value_cases(rng, n_cases, dims_choices=(2, 2, 2, 3), with_g=True, symmetric_unit=False):
    cases = []
    while len(cases) < n_cases:
        D = rng.choice(dims_choices)
        cfg = random_cfg(rng, D, symmetric_unit=symmetric_unit, maxN=3 if D == 2 else 2, maxM=3 if D == 2 else 2)
        if D == 3 and cfg["mode"] in ("TORUS", "SAME"):
            cfg["M"] = [rng.choice([1, 3]) if rng.random() < 0.3 else 1 for _ in range(D)]
            if not all(x >= 1 for x in _py_out(cfg)):
                continue
        kmax = 3 if D == 2 else 2
        kA = rng.randint(0, 2)
        kF = rng.randint(0, min(2, kmax - kA)) if kmax - kA >= 0 else 0
        cc = rng.random() < 0.5
        if cc:
            kF = kA + rng.randint(0, 1)              # filter carries the image's indices first
            if kA + kF > kmax + 1:
                continue
        if int(np.prod(_py_out(cfg))) * D ** (kA + kF) > 700:
            continue
        pA, pF = rng.randint(0, 1), rng.randint(0, 1)
        b, ci, co = rng.randint(1, 2), rng.randint(1, 3), rng.randint(1, 2)
        single = rng.random() < 0.3
        if single:
            b = ci = co = 1
        A = [[random_image(rng, cfg["N"], D, kA, pA) for _ in range(ci)] for _ in range(b)]
        F = [[random_image(rng, cfg["M"], D, kF, pF) for _ in range(ci)] for _ in range(co)]
        unit = all(s == 1 for s in cfg["stride"])
        hasg = bool(with_g and unit)
        g = rng.choice(convlib.all_group(D)) if hasg else {"p": list(range(1, D + 1)), "s": [1] * D}
        cases.append(dict(cfg=cfg, A=A, F=F, cc=cc, hasg=hasg, g=g))
    return cases


def run_value_gen(chk, cases, workers=16):
    os.makedirs(tlc.WORK, exist_ok=True)
    path = os.path.join(tlc.WORK, "conv_input_%s_%d.json" % (chk.prop, os.getpid()))
    with open(path, "w") as f:
        json.dump({"cases": cases}, f)
    try:
        r = tlc.run(GEN, tlc.make_cfg(invariants=["Laws", "Emit"]), env={"CONV_INPUT": path}, workers=workers,
                    coverage=False, timeout=6000)
    finally:
        os.remove(path)
    chk.add_tlc(r, vacuity_actions=("Pick",))
    if not r.ok:
        chk.spec_violation(r, "value-level (g.A)*(g.C) = g.(A*C) fails in the specification itself")
    return {c["n"]: c for c in r.cases}


def _arr(imgs, D):
    """imgs[b][c] image records -> ndarray (b, c, spatial, tensor)"""
    return np.array([[np.array(im["val"], dtype=np.float32).reshape(tuple(im["dims"]) + (D,) * im["k"])
                      for im in row] for row in imgs], dtype=np.float32)


def _value_chunk(chunk):
    import jax.numpy as jnp
    import ginjax.geometric as geom
    fails, n_eval = [], 0
    for idx, case, exp in chunk:
        cfg = case["cfg"]
        D = len(cfg["N"])
        A, F = _arr(case["A"], D), _arr(case["F"], D)
        kA, kF = case["A"][0][0]["k"], case["F"][0][0]["k"]
        b, ci, co = A.shape[0], A.shape[1], F.shape[0]
        odims = tuple(exp["out"])
        want = np.array(exp["conv"], dtype=np.float32).reshape((b, co) + odims + (D,) * (kA + kF))
        key = {"cfg": cfg, "kA": kA, "kF": kF, "b": b, "ci": ci, "co": co}
        kw = convlib.code_args(cfg, idx % 13)
        args = (kw["is_torus"], kw["stride"], kw["padding"], kw["lhs_dilation"], kw["rhs_dilation"])

        def fail(entry, what, e=None, o=None):
            fails.append({"key": dict(key, entry=entry, what=what), "case": case,
                          "expected": None if e is None else np.asarray(e).ravel().tolist()[:80],
                          "observed": None if o is None else np.asarray(o).ravel().tolist()[:80]})
        # 1. geom.convolve
        n_eval += 1
        try:
            got = np.asarray(convlib.quiet(geom.convolve, D, jnp.asarray(A), jnp.asarray(F), *args))
            if got.shape != want.shape:
                fail("geom.convolve", "shape", want.shape, got.shape)
            elif not np.array_equal(got, want):
                fail("geom.convolve", "values", want, got)
        except Exception as ex:
            fail("geom.convolve", "raised %s: %s" % (type(ex).__name__, str(ex)[:200]))
            continue
        # 2. geom.convolve_ravel on the documented raveled layout (tensor-major, channel-minor)
        n_eval += 1
        try:
            T = D ** (kA + kF)
            Aexp = np.broadcast_to(A.reshape(A.shape + (1,) * kF), A.shape + (D,) * kF)
            Fexp = np.broadcast_to(F.reshape(F.shape[: 2 + D] + (1,) * kA + F.shape[2 + D:]),
                                   F.shape[: 2 + D] + (D,) * kA + F.shape[2 + D:])
            img_r = np.moveaxis(Aexp.reshape((b, ci) + tuple(cfg["N"]) + (T,)), 1, -1).reshape(
                (b,) + tuple(cfg["N"]) + (T * ci,))
            fil_r = np.moveaxis(np.moveaxis(Fexp.reshape((co, ci) + tuple(cfg["M"]) + (T,)), 0, -1), 0, D).reshape(
                tuple(cfg["M"]) + (ci, T * co))
            got = np.asarray(convlib.quiet(geom.convolve_ravel, D, jnp.asarray(np.ascontiguousarray(img_r)),
                                           jnp.asarray(np.ascontiguousarray(fil_r)), *args))
            got = np.moveaxis(got.reshape((b,) + odims + (T, co)), -1, 1).reshape(want.shape)
            if not np.array_equal(got, want):
                fail("geom.convolve_ravel", "values", want, got)
        except Exception as ex:
            fail("geom.convolve_ravel", "raised %s: %s" % (type(ex).__name__, str(ex)[:200]))
        # 3. fused convolve-and-contract
        if case["cc"]:
            n_eval += 1
            try:
                wantc = np.array(exp["cc"], dtype=np.float32).reshape((b, co) + odims + (D,) * (kF - kA))
                got = np.asarray(convlib.quiet(geom.convolve_contract, D, jnp.asarray(A), jnp.asarray(F), *args))
                if got.shape != wantc.shape or not np.array_equal(got, wantc):
                    fail("geom.convolve_contract", "values", wantc, got)
                # code vs code: fused == convolve followed by Kronecker contraction
                if kA > 0:
                    full = convlib.quiet(geom.convolve, D, jnp.asarray(A), jnp.asarray(F), *args)
                    pairs = tuple((r, kA + r) for r in range(kA))
                    ref = np.asarray(geom.multicontract(full, pairs, idx_shift=2 + D))
                    if not np.array_equal(ref, got):
                        fail("geom.convolve_contract", "differs from multicontract(convolve)", ref, got)
            except Exception as ex:
                fail("geom.convolve_contract", "raised %s: %s" % (type(ex).__name__, str(ex)[:200]))
        # 4. single-image API: values + declared type
        if b == ci == co == 1:
            n_eval += 1
            try:
                flags = tuple(bool(t) for t in cfg["torus"])
                pad = kw["padding"]
                if cfg["mode"] == "SAME":
                    pad, flags = "SAME", (False,) * D
                if cfg["mode"] == "TORUS":
                    pad = "TORUS" if not any(flags) else kw["padding"]
                ia = geom.GeometricImage(jnp.asarray(A[0, 0]), case["A"][0][0]["p"], D, flags)
                fa = geom.GeometricImage(jnp.asarray(F[0, 0]), case["F"][0][0]["p"], D, flags)
                o = convlib.quiet(ia.convolve_with, fa, kw["stride"], pad, kw["lhs_dilation"], kw["rhs_dilation"])
                if o.data.shape != want.shape[2:] or not np.array_equal(np.asarray(o.data), want[0, 0]):
                    fail("GeometricImage.convolve_with", "values", want[0, 0], o.data)
                if (o.k, o.parity, o.D) != (exp["k"], exp["p"], D):
                    fail("GeometricImage.convolve_with", "declared k/parity/D", [exp["k"], exp["p"], D],
                         [o.k, o.parity, o.D])
                if tuple(o.is_torus) != flags:
                    fail("GeometricImage.convolve_with", "is_torus", flags, o.is_torus)
            except Exception as ex:
                fail("GeometricImage.convolve_with", "raised %s: %s" % (type(ex).__name__, str(ex)[:200]))
    return fails, n_eval


def replay_values(chk, cases, expected):
    items = [(i, c, expected[i + 1]) for i, c in enumerate(cases) if (i + 1) in expected]
    if len(items) != len(cases):
        raise RuntimeError("Gen_ConvValue emitted %d of %d cases" % (len(items), len(cases)))
    for fails, n in core.pmap(_value_chunk, core.shards(items, 32), split=lambda ch: [[x] for x in ch]):
        chk.evaluations += n
        for f in fails:
            chk.report(f["key"], payload=f)
    for c in cases:
        chk.traces += 1
        chk.distinct.add(core.chash([c["cfg"], c["A"][0][0]["k"], c["F"][0][0]["k"], len(c["A"]), len(c["F"])]))
    if cases:
        c = cases[0]
        chk.samples.append({"value_case": {"cfg": c["cfg"], "kA": c["A"][0][0]["k"], "kF": c["F"][0][0]["k"],
                                           "A0": c["A"][0][0]["val"][:12], "expected0": expected[1]["conv"][0][0][:12]}})


# ------------------------------------------------------------------------------------------------
# bilinearity of the code path on random floats (C04)

def _bilinear_chunk(chunk):
    import jax.numpy as jnp
    import ginjax.geometric as geom
    fails, n_eval = [], 0
    for seed, cfg, kA, kF in chunk:
        D = len(cfg["N"])
        r = np.random.RandomState(seed)
        sh_a = (2, 2) + tuple(cfg["N"]) + (D,) * kA
        sh_f = (2, 2) + tuple(cfg["M"]) + (D,) * kF
        A1, A2 = r.randn(*sh_a).astype(np.float32), r.randn(*sh_a).astype(np.float32)
        F1, F2 = r.randn(*sh_f).astype(np.float32), r.randn(*sh_f).astype(np.float32)
        al, be = np.float32(r.uniform(-2, 2)), np.float32(r.uniform(-2, 2))
        kw = convlib.code_args(cfg, seed % 11)
        args = (kw["is_torus"], kw["stride"], kw["padding"], kw["lhs_dilation"], kw["rhs_dilation"])
        cv = lambda a, f: np.asarray(convlib.quiet(geom.convolve, D, jnp.asarray(a), jnp.asarray(f), *args), dtype=np.float64)
        n_eval += 1
        try:
            lhsA = cv(al * A1 + be * A2, F1)
            rhsA = al * cv(A1, F1) + be * cv(A2, F1)
            lhsF = cv(A1, al * F1 + be * F2)
            rhsF = al * cv(A1, F1) + be * cv(A1, F2)
            scale = max(1.0, float(np.abs(rhsA).max()), float(np.abs(rhsF).max()))
            dA, dF = float(np.abs(lhsA - rhsA).max()) / scale, float(np.abs(lhsF - rhsF).max()) / scale
            if dA > 1e-4 or dF > 1e-4:
                fails.append({"key": {"cfg": cfg, "what": "bilinearity", "defect_image": dA, "defect_filter": dF}})
        except Exception as ex:
            fails.append({"key": {"cfg": cfg, "what": "bilinearity raised %s: %s" % (type(ex).__name__, str(ex)[:200])}})
    return fails, n_eval


def check_bilinearity(chk, rng, n):
    items = []
    for i in range(n):
        D = rng.choice([2, 2, 3])
        cfg = random_cfg(rng, D, maxN=4 if D == 2 else 2, maxM=3 if D == 2 else 2)
        items.append((rng.randint(0, 10 ** 6), cfg, rng.randint(0, 2 if D == 2 else 1), rng.randint(0, 1)))
    for fails, ne in core.pmap(_bilinear_chunk, core.shards(items, 16), split=lambda ch: [[x] for x in ch]):
        chk.evaluations += ne
        for f in fails:
            chk.report(f["key"], payload=f)


# ------------------------------------------------------------------------------------------------
# equivariance and translation directly on the code (C01)

def _transport(cfg, g):
    """CfgG of the spec, mirrored for calling the code on the transformed operands (the spec's own CfgG is
    what MC_Convolution checks; this mirror is cross-checked against it through Gen_ConvValue's EquivLaw)."""
    P, S = g["p"], g["s"]
    od = lambda x: [x[P[i] - 1] for i in range(len(P))]
    pad = [list(cfg["pad"][P[i] - 1]) if S[i] == 1 else list(reversed(cfg["pad"][P[i] - 1])) for i in range(len(P))]
    return dict(N=od(cfg["N"]), M=od(cfg["M"]), torus=od(cfg["torus"]), mode=cfg["mode"], pad=pad,
                stride=od(cfg["stride"]), rdil=od(cfg["rdil"]), ldil=od(cfg["ldil"]))


def _equiv_chunk(chunk):
    import jax.numpy as jnp
    import ginjax.geometric as geom
    fails, n_eval = [], 0
    for idx, case in chunk:
        cfg, g = case["cfg"], case["g"]
        D = len(cfg["N"])
        gg = convlib.g_to_mat(g)
        A, F = _arr(case["A"], D), _arr(case["F"], D)
        kA, kF = case["A"][0][0]["k"], case["F"][0][0]["k"]
        pA, pF = case["A"][0][0]["p"], case["F"][0][0]["p"]
        key = {"cfg": cfg, "g": g, "kA": kA, "kF": kF, "pA": pA, "pF": pF}
        act = lambda X, p: np.stack([np.stack([np.asarray(geom.times_group_element(D, jnp.asarray(im), p, gg))
                                               for im in row]) for row in X])
        kw, kwg = convlib.code_args(cfg, idx % 13), convlib.code_args(_transport(cfg, g), idx % 13)
        cv = lambda a, f, k_: convlib.quiet(geom.convolve, D, jnp.asarray(a), jnp.asarray(f), k_["is_torus"], k_["stride"],
                                            k_["padding"], k_["lhs_dilation"], k_["rhs_dilation"])
        n_eval += 1
        try:
            lhs = np.asarray(cv(act(A, pA), act(F, pF), kwg))
            rhs = act(np.asarray(cv(A, F, kw)), (pA + pF) % 2)
            if lhs.shape != rhs.shape or not np.array_equal(lhs, rhs):
                fails.append({"key": dict(key, entry="geom.convolve", what="(g.A)*(g.C) != g.(A*C)"), "case": case,
                              "expected": rhs.ravel().tolist()[:60], "observed": lhs.ravel().tolist()[:60]})
        except Exception as ex:
            fails.append({"key": dict(key, entry="geom.convolve", what="raised %s: %s" % (type(ex).__name__, str(ex)[:200]))})
        # single-image API: parity / order bookkeeping and flags travelling with the axes
        if A.shape[0] == A.shape[1] == F.shape[0] == 1 and cfg["mode"] in ("TORUS", "SAME"):
            n_eval += 1
            try:
                flags = tuple(bool(t) for t in cfg["torus"])
                ia = geom.GeometricImage(jnp.asarray(A[0, 0]), pA, D, flags)
                fa = geom.GeometricImage(jnp.asarray(F[0, 0]), pF, D, flags)
                rd = tuple(cfg["rdil"])
                rdg = tuple(_transport(cfg, g)["rdil"])
                ld = None if set(cfg["ldil"]) == {1} else tuple(cfg["ldil"])
                ldg = None if ld is None else tuple(_transport(cfg, g)["ldil"])
                l = convlib.quiet(ia.times_group_element(gg).convolve_with, fa.times_group_element(gg), 1, None, ldg, rdg)
                r_ = convlib.quiet(ia.convolve_with, fa, 1, None, ld, rd).times_group_element(gg)
                if l.data.shape != r_.data.shape or not np.array_equal(np.asarray(l.data), np.asarray(r_.data)):
                    fails.append({"key": dict(key, entry="GeometricImage.convolve_with", what="(g.A)*(g.C) != g.(A*C)"), "case": case})
                if (l.k, l.parity) != (kA + kF, (pA + pF) % 2) or (r_.k, r_.parity) != (l.k, l.parity):
                    fails.append({"key": dict(key, entry="GeometricImage.convolve_with", what="declared k/parity"), "case": case})
                if tuple(l.is_torus) != tuple(r_.is_torus):
                    fails.append({"key": dict(key, entry="GeometricImage.convolve_with", what="is_torus of the two sides differ"), "case": case})
            except Exception as ex:
                fails.append({"key": dict(key, entry="GeometricImage.convolve_with", what="raised %s: %s" % (type(ex).__name__, str(ex)[:200]))})
        # cyclic translations on toroidal axes without image dilation
        if cfg["mode"] == "TORUS":
            for j in range(D):
                if cfg["torus"][j] and cfg["ldil"][j] == 1 and cfg["N"][j] > 1:
                    n_eval += 1
                    try:
                        sh = 1 + (idx % max(1, cfg["N"][j] - 1))
                        l = np.asarray(cv(np.roll(A, sh, axis=2 + j), F, kw))
                        r_ = np.roll(np.asarray(cv(A, F, kw)), sh, axis=2 + j)
                        if not np.array_equal(l, r_):
                            fails.append({"key": dict(key, entry="geom.convolve", what="translation", axis=j, shift=sh), "case": case})
                    except Exception as ex:
                        fails.append({"key": dict(key, entry="geom.convolve", what="translation raised %s" % type(ex).__name__)})
    return fails, n_eval


def check_equivariance_on_code(chk, cases):
    items = [(i, c) for i, c in enumerate(cases) if c["hasg"]]
    for fails, ne in core.pmap(_equiv_chunk, core.shards(items, 32), split=lambda ch: [[x] for x in ch]):
        chk.evaluations += ne
        for f in fails:
            chk.report(f["key"], payload=f)


def set_product(vals, D):
    return set(itertools.product(vals, repeat=D))
