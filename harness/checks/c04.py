"""C04 -- convolution computes its mathematical definition in every mode.

MC:   MC_Convolution over the full option lattice (stride > 1, asymmetric explicit paddings, all modes,
      both dilations, even/odd, square/non-square filters): ShapeOK (standard size formula, every source
      inside the image), Translates.
GEN:  tap tables of a seeded sub-sample of cells -> one geom.convolve call per cell, compared exactly;
      Gen_ConvValue: Convolve / ConvContract on random integer batches -> geom.convolve, convolve_ravel,
      convolve_contract, GeometricImage.convolve_with.
Code: bilinearity on random floats; fused convolve_contract == multicontract(convolve).
"""
import random

from harness import core
from harness.checks import convchecks as cc


def lattices(tier, seed):
    P2 = cc.set_product
    # deep wrap: the dilated half-width of the filter exceeds the extent of a toroidal axis (several wraps)
    deep = dict(D=2, Ns={(2, 2), (2, 3), (3, 2), (1, 3)}, Ms={(3, 3), (5, 5), (3, 5)}, Modes={"TORUS"}, Pads={((1, 1), (1, 1))},
                StrideSet={(1, 1)}, RdilSet={(1, 1), (3, 3), (4, 2)}, LdilSet={(1, 1)}, GroupMode="none", SampleMod=2, Seed=seed % 2)
    if tier == "quick":
        return [deep,
            dict(D=2, Ns=P2([1, 2, 3, 4], 2), Ms=P2([1, 2, 3], 2), Modes={"TORUS", "SAME", "VALID", "EXPL"},
                 Pads={((1, 1), (1, 1)), ((2, 2), (0, 0)), ((0, 1), (2, 0))},
                 StrideSet={(1, 1), (2, 2), (1, 2), (3, 1)}, RdilSet={(1, 1), (2, 1), (2, 2)},
                 LdilSet={(1, 1), (2, 2), (1, 2)}, GroupMode="none", SampleMod=41, Seed=seed % 41),
            dict(D=3, Ns={(2, 2, 2), (1, 2, 3), (3, 2, 2)}, Ms={(1, 1, 1), (3, 3, 3), (2, 2, 2), (1, 3, 2)},
                 Modes={"TORUS", "SAME", "VALID", "EXPL"}, Pads={((1, 1), (1, 1), (1, 1)), ((0, 1), (2, 0), (1, 1))},
                 StrideSet={(1, 1, 1), (2, 1, 2)}, RdilSet={(1, 1, 1), (2, 1, 1)}, LdilSet={(1, 1, 1), (1, 2, 1)},
                 GroupMode="none", SampleMod=11, Seed=seed % 11),
        ]
    return [
        deep,
        dict(D=2, Ns=P2([1, 2, 3, 4, 5], 2), Ms=P2([1, 2, 3, 4], 2), Modes={"TORUS", "SAME", "VALID", "EXPL"},
             Pads={((1, 1), (1, 1)), ((2, 2), (0, 0)), ((0, 1), (2, 0)), ((3, 0), (1, 2))},
             StrideSet=P2([1, 2, 3], 2), RdilSet={(1, 1), (2, 1), (1, 2), (2, 2), (3, 3), (3, 1)}, LdilSet={(1, 1), (2, 2), (1, 2), (3, 1)},
             GroupMode="none", SampleMod=401, Seed=seed % 401),
        dict(D=3, Ns=P2([1, 2, 3], 3), Ms={(1, 1, 1), (3, 3, 3), (2, 2, 2), (1, 3, 2), (3, 1, 1), (2, 3, 3)},
             Modes={"TORUS", "SAME", "VALID", "EXPL"}, Pads={((1, 1), (1, 1), (1, 1)), ((0, 1), (2, 0), (1, 1))},
             StrideSet={(1, 1, 1), (2, 1, 2), (2, 2, 2)}, RdilSet={(1, 1, 1), (2, 1, 1), (2, 2, 2)},
             LdilSet={(1, 1, 1), (1, 2, 1), (2, 2, 2)}, GroupMode="none", SampleMod=61, Seed=seed % 61),
    ]


def main(tier):
    chk = core.Check("C04", tier)
    chk.rule = ("tap-table cells = seeded sub-sample (CfgHash+Seed mod SampleMod) of the admissible cells TLC visits; "
                "value cases = random integer batches; distinct by configuration (+ tensor orders and channel counts); "
                "a cell is non-trivial when some tap hits padding or a dilation/stride differs from 1")
    lat = lattices(tier, core.SEED)
    tables = cc.run_lattices(chk, lat, parallel=2, workers=8)
    chk.extra["lattices"] = [{k: (sorted(v) if isinstance(v, set) else v) for k, v in c.items()} for c in lat]
    chk.exhaustive = False
    cc.replay_tables(chk, tables, nontrivial=lambda c: (-1 in c["table"]) or set(c["cfg"]["stride"]) != {1}
                     or set(c["cfg"]["rdil"]) != {1} or set(c["cfg"]["ldil"]) != {1})
    rng = random.Random(core.SEED + 4)
    cases = cc.make_value_cases(rng, 150 if tier == "quick" else 1500, with_g=False)
    exp = cc.run_value_gen(chk, cases)
    cc.replay_values(chk, cases, exp)
    cc.check_bilinearity(chk, rng, 48 if tier == "quick" else 400)
    chk.assumptions = ["TLC/SANY/Json trusted", "float32 exact on the small integers used",
                       "cells beyond the listed lattice bounds are not explored",
                       "TORUS x image dilation wraps before interleaving (interpretive choice made toward the code, Convolution.tla header)"]
    return chk.finish()


def replay(path):
    import json
    pl = json.load(open(path))
    core._pool_init()
    key = pl.get("key", {})
    if "case" in pl and "expected" in pl and "A" in pl["case"]:
        chk = core.Check("C04", "quick")
        exp = cc.run_value_gen(chk, [pl["case"]], workers=2)
        fails, _ = cc._value_chunk([(0, pl["case"], exp[1])])
    else:
        from harness import tlc
        cfg = key["cfg"]
        # recompute the spec table for this very cell
        consts = dict(D=len(cfg["N"]), Ns={tuple(cfg["N"])}, Ms={tuple(cfg["M"])}, Modes={cfg["mode"]},
                      Pads={tuple(tuple(p) for p in cfg["pad"])}, StrideSet={tuple(cfg["stride"])},
                      RdilSet={tuple(cfg["rdil"])}, LdilSet={tuple(cfg["ldil"])}, GroupMode="none", SampleMod=1, Seed=0)
        r = tlc.run(cc.MC, tlc.make_cfg(constants=consts, invariants=["Laws", "Emit"]), constants=consts, workers=2)
        tabs = [c for c in r.cases if c["cfg"] == cfg]
        fails = []
        for v in range(14):
            f, _ = cc._replay_tables_chunk([(v, t) for t in tabs])
            fails += f
    for f in fails[:5]:
        print("VIOLATION property=C04 replay=%s" % path)
        print("  detail:", core.canon(f["key"])[:400])
    return 1 if fails else 0
