"""C05 -- image algebra is type-sound: the declared (k, parity) is how results transform.

Spec:  ImageProgram.tla -- register machine over GeomImage/Convolution operators; `twin` is the same program on the
       g-transformed leaves.  TypeSound (twin = Act(g, reg)) and AlgebraLaws (contraction order/pair-order independence,
       commutativity of the tensor product up to index transposition) are TLC invariants over ALL programs up to the depth
       bound x the chosen group elements, on random integer leaves supplied by the harness.
Replay: every program is run on real GeometricImage objects twice (plain leaves; g-transformed leaves, with the boundary flags
       transported) and after every step the data (exact) and the declared k / parity / D / extents / flags are compared with
       reg[i] / twin[i].  Since TLC has checked twin = Act(g, reg) in the spec, conformance of both runs IS the property on
       the code.  Thorough adds simulated depth-4 programs.
"""
import json
import os
import random

import numpy as np

from harness import convlib, core, tlc

MODULE = "ImageProgram.tla"
G2 = '{[p |-> <<2, 1>>, s |-> <<-1, 1>>], [p |-> <<1, 2>>, s |-> <<-1, 1>>], [p |-> <<2, 1>>, s |-> <<1, 1>>]}'
G3 = '{[p |-> <<2, 3, 1>>, s |-> <<1, -1, 1>>], [p |-> <<2, 1, 3>>, s |-> <<-1, 1, 1>>]}'


def make_input(rng, D, dims, leaf_types, filt_type, mode, torus):
    def img(k, p, dm):
        n = int(np.prod(dm)) * D ** k
        return dict(dims=list(dm), k=k, p=p, val=[rng.randint(-3, 3) for _ in range(n)])
    return dict(leaves=[img(k, p, dims) for k, p in leaf_types], filter=img(filt_type[0], filt_type[1], [3] * D),
                cfg=dict(N=list(dims), M=[3] * D, torus=list(torus), mode=mode, pad=[[0, 0]] * D, stride=[1] * D,
                         rdil=[1] * D, ldil=[1] * D))


def instances(tier, rng):
    out = [
        dict(inp=make_input(rng, 2, (2, 3), [(1, 0), (1, 1), (0, 1), (2, 0)], (1, 0), "TORUS", (True, False)),
             consts=dict(Group=tlc.Raw(G2), MaxDepth=2, KCap=4, ScaleSet={-2})),
        dict(inp=make_input(rng, 3, (2, 1, 2), [(1, 0), (1, 1)], (0, 0), "SAME", (False, False, False)),
             consts=dict(Group=tlc.Raw(G3), MaxDepth=2, KCap=3, ScaleSet={3})),
    ]
    if tier == "thorough":
        out += [
            dict(inp=make_input(rng, 2, (3, 3), [(1, 0), (0, 0), (2, 1), (3, 0)], (1, 1), "SAME", (False, False)),
                 consts=dict(Group=tlc.Raw("B(2)"), MaxDepth=2, KCap=4, ScaleSet={-2, 3})),
            dict(inp=make_input(rng, 2, (2, 3), [(1, 0), (1, 1), (0, 1)], (1, 0), "TORUS", (True, True)),
                 consts=dict(Group=tlc.Raw(G2), MaxDepth=3, KCap=3, ScaleSet={-2})),
            dict(inp=make_input(rng, 3, (2, 2, 2), [(1, 0), (1, 1), (2, 0)], (1, 0), "TORUS", (True, False, True)),
                 consts=dict(Group=tlc.Raw("Rotations(3)"), MaxDepth=2, KCap=3, ScaleSet={-2})),
        ]
    return out


def run_program(case, inp, geom, jnp):
    D = len(inp["leaves"][0]["dims"])
    nleaf = len(inp["leaves"])
    gg = np.array(case["mat"])

    def mk(snap, flags):
        a = np.array(snap["val"], dtype=np.float32).reshape(tuple(snap["dims"]) + (D,) * snap["k"])
        return geom.GeometricImage(jnp.asarray(a), snap["p"], D, tuple(bool(f) for f in flags))
    cfgs = {"reg": inp["cfg"], "twin": case["gcfg"]}
    filters = {"reg": inp["filter"], "twin": case["gfilter"]}
    for side in ("reg", "twin"):
        cfg = cfgs[side]
        flags = cfg["torus"]
        regs = [mk(case[side][i], flags) for i in range(nleaf)]
        filt = mk(filters[side], flags)
        for si, st in enumerate(case["hist"]):
            op, i = st["op"], st["i"] - 1
            want = case[side][nleaf + si]
            try:
                if op == "Add":
                    r = regs[i] + regs[st["j"] - 1]
                elif op == "Sub":
                    r = regs[i] - regs[st["j"] - 1]
                elif op == "Scale":
                    r = regs[i] * st["c"] if si % 2 == 0 else st["c"] * regs[i]
                elif op == "TProd":
                    r = regs[i] * regs[st["j"] - 1]
                    bad = functional_mul(geom, jnp, D, regs[i], regs[st["j"] - 1], want)
                    if bad:
                        return side, si, bad
                elif op == "Transpose":
                    r = regs[i].transpose([a - 1 for a in st["perm"]])
                elif op == "Contract":
                    r = regs[i].contract(st["a"] - 1, st["b"] - 1)
                elif op == "MultiContract":
                    r = regs[i].multicontract(tuple((a - 1, b - 1) for a, b in st["pairs"]))
                elif op == "LeviCivita":
                    idx = tuple(a - 1 for a in st["idxs"])
                    r = regs[i].levi_civita_contract(idx[0] if (len(idx) == 1 and si % 2 == 0) else idx)
                elif op == "NormSq":
                    nrm = regs[i].norm()
                    sq = np.asarray(nrm.data, dtype=np.float64) ** 2
                    if not np.allclose(sq.ravel(), want["val"], rtol=1e-5, atol=1e-5):
                        return side, si, "norm: values"
                    r = geom.GeometricImage(jnp.asarray(np.rint(sq).astype(np.float32)), nrm.parity, nrm.D, nrm.is_torus)
                elif op == "SpatialSum":     # no library method: the numerator of the spatial mean the layers take (jnp.mean over the pixel axes)
                    tot = jnp.sum(regs[i].data, axis=tuple(range(D)), keepdims=True)
                    r = geom.GeometricImage(jnp.broadcast_to(tot, regs[i].data.shape), regs[i].parity, regs[i].D, regs[i].is_torus)
                elif op == "Convolve":
                    kw = convlib.code_args(cfg, 0)
                    r = convlib.quiet(regs[i].convolve_with, filt, kw["stride"], None if cfg["mode"] == "SAME" else kw["padding"],
                                      kw["lhs_dilation"], kw["rhs_dilation"])
                else:
                    raise RuntimeError(op)
            except RuntimeError:
                raise
            except Exception as ex:
                return side, si, "raised %s: %s" % (type(ex).__name__, str(ex)[:160])
            if (r.k, r.parity, r.D) != (want["k"], want["p"], D):
                return side, si, "declared type: expected (k=%d, parity=%d) got (k=%d, parity=%d)" % (want["k"], want["p"], r.k, r.parity)
            if list(r.spatial_dims) != want["dims"]:
                return side, si, "spatial dims"
            if tuple(r.is_torus) != tuple(bool(f) for f in flags):
                return side, si, "is_torus"
            if np.asarray(r.data).ravel().tolist() != [float(v) for v in want["val"]]:
                return side, si, "values"
            regs.append(r)
    return None


def functional_mul(geom, jnp, D, a, b, want):
    """geom.mul (the functional form of the product, with `a_offset` / `b_offset` leading batch / channel axes) against the
    specification's TProd: every leading entry is the product of the corresponding entries; an operand without leading axes is
    shared by all entries of the other.  Leading entries are small integer multiples of the operands, so the comparison is exact."""
    w = np.array(want["val"], dtype=np.float64).reshape(tuple(want["dims"]) + (D,) * want["k"])
    A, B = np.asarray(a.data, dtype=np.float32), np.asarray(b.data, dtype=np.float32)
    for oa, ob in ((1, 1), (2, 2), (1, 0), (0, 1), (0, 0)):
        lead = (2,) if max(oa, ob) == 1 else (2, 2) if max(oa, ob) == 2 else ()
        idx = np.indices(lead) if lead else None
        ma = (1 + idx[0]) if oa else None
        mb = (1 + idx[-1] if oa else 2 - idx[0]) if ob else None
        ea = lambda m, X: X if m is None else m.reshape(lead + (1,) * X.ndim).astype(np.float32) * X
        got = np.asarray(geom.mul(D, jnp.asarray(ea(ma, A)), jnp.asarray(ea(mb, B)), oa, ob), dtype=np.float64)
        mult = (1 if ma is None else ma) * (1 if mb is None else mb)
        exp = w if not lead else np.asarray(mult, dtype=np.float64).reshape(lead + (1,) * w.ndim) * w
        if got.shape != exp.shape:
            return "geom.mul(a_offset=%d, b_offset=%d): result shape %s, expected %s" % (oa, ob, got.shape, exp.shape)
        if not np.array_equal(got, exp):
            return "geom.mul(a_offset=%d, b_offset=%d): values differ from the product of the corresponding entries" % (oa, ob)
    return None


def replay_chunk(args):
    chunk, inp = args
    import jax.numpy as jnp
    import ginjax.geometric as geom
    fails = []
    for c in chunk:
        r = run_program(c, inp, geom, jnp)
        if r is not None:
            side, si, what = r
            st = c["hist"][si]
            fails.append({"key": {"op": st["op"], "what": what.split(":")[0], "detail": what, "side": "plain leaves" if side == "reg" else "g-transformed leaves",
                                  "program": c["hist"], "g": c["g"]}, "case": c, "input": inp})
    return fails, len(chunk)


def main(tier):
    chk = core.Check("C05", tier)
    chk.rule = ("one case per (program, g): all programs of the depth bound over the leaves, plus simulated deeper ones; non-trivial = "
                "g is not the identity (always) and the program contains a product, contraction, Levi-Civita, norm or convolution; "
                "distinct by (instance, program, g)")
    rng = random.Random(core.SEED + 5)
    insts = instances(tier, rng)
    os.makedirs(tlc.WORK, exist_ok=True)
    all_cases = []
    jobs = []
    for n, inst in enumerate(insts):
        path = os.path.join(tlc.WORK, "prog_input_%d_%d.json" % (os.getpid(), n))
        with open(path, "w") as f:
            json.dump(inst["inp"], f)
        inst["path"] = path
        jobs.append(dict(module_path=MODULE, cfg=tlc.make_cfg(constants=inst["consts"], invariants=["TypeSound", "AlgebraLaws", "Emit"]),
                         constants=inst["consts"], env={"PROG_INPUT": path}, workers=8, coverage=False, timeout=6000))
    sims = []
    n_sim = 12 if tier == "quick" else 400
    sconst = dict(insts[0]["consts"], MaxDepth=4)
    jobs.append(dict(module_path=MODULE, cfg=tlc.make_cfg(constants=sconst, invariants=["TypeSound", "Emit"]), constants=sconst,
                     env={"PROG_INPUT": insts[0]["path"]}, workers=8, simulate=dict(num=n_sim, depth=5, seed=core.SEED + 55), timeout=6000))
    try:
        results = tlc.run_many(jobs, parallel=2)
    finally:
        for inst in insts:
            os.remove(inst["path"])
    ops_seen = set()
    for n, r in enumerate(results):
        chk.add_tlc(r)
        if not r.ok:
            chk.spec_violation(r, "type soundness / algebra laws fail in the specification itself")
        inst = insts[n] if n < len(insts) else insts[0]
        seen = set()
        cs = []
        for c in r.cases:
            h = core.chash([c["hist"], c["g"]])
            if h not in seen:
                seen.add(h)
                cs.append(c)
        all_cases.append((inst["inp"], cs))
        for c in cs:
            ops_seen.update(s["op"] for s in c["hist"])
    need = {"Add", "Sub", "Scale", "TProd", "Transpose", "Contract", "MultiContract", "LeviCivita", "NormSq", "Convolve", "SpatialSum"}
    if not need <= ops_seen:
        raise RuntimeError("vacuity: operations never exercised: %s" % sorted(need - ops_seen))
    chk.exhaustive = True
    items = []
    for inp, cs in all_cases:
        for ch in core.shards(cs, 24):
            items.append((ch, inp))
    for fails, n in core.pmap(replay_chunk, items):
        chk.evaluations += n
        chk.traces += n
        for f in fails:
            chk.report(f["key"], payload=f)
    for n, (inp, cs) in enumerate(all_cases):
        for c in cs:
            if any(s["op"] in ("TProd", "Contract", "MultiContract", "LeviCivita", "NormSq", "Convolve") for s in c["hist"]):
                chk.distinct.add(core.chash([n, c["hist"], c["g"]]))
    # ---- the enumeration of distinct contractions (geom.get_contraction_indices) against Contractions.tla -------------
    cc = dict(MaxK=5 if tier == "quick" else 7)
    r = tlc.run("Contractions.tla", tlc.make_cfg(constants=cc, invariants=["Laws", "Emit"]), constants=cc, workers=4, coverage=True, timeout=3000)
    chk.add_tlc(r, vacuity_actions=("Pick",))
    if not r.ok:
        chk.spec_violation(r, "number of distinct contractions differs from the closed formula in the specification")
    import ginjax.geometric as geom
    for cs in r.cases:
        chk.evaluations += 1
        chk.traces += 1
        want = {frozenset(frozenset(pr) for pr in S) for S in cs["sets"]}
        try:
            got_list = geom.get_contraction_indices(cs["k"], cs["kf"])
            got = [frozenset(frozenset(pr) for pr in idx) for idx in got_list]
            if len(got) != len(set(got)) or set(got) != want or any(len(pr) != 2 for idx in got_list for pr in idx):
                chk.report({"op": "get_contraction_indices", "what": "does not enumerate each distinct contraction exactly once",
                            "k": cs["k"], "kf": cs["kf"], "expected_count": cs["count"], "observed_count": len(got_list)})
        except Exception as ex:
            chk.report({"op": "get_contraction_indices", "what": "raised %s: %s" % (type(ex).__name__, str(ex)[:200]), "k": cs["k"], "kf": cs["kf"]})
    c = all_cases[0][1][len(all_cases[0][1]) // 2]
    chk.samples = [{"program": c["hist"], "g": c["g"], "result_type": [c["reg"][-1]["k"], c["reg"][-1]["p"]], "result": c["reg"][-1]["val"][:16],
                    "twin_result": c["twin"][-1]["val"][:16]}]
    chk.extra["instances"] = [{"leaf_types": [[l["k"], l["p"]] for l in i["inp"]["leaves"]], "dims": i["inp"]["leaves"][0]["dims"],
                               "consts": {k: str(v) for k, v in i["consts"].items()}} for i in insts]
    chk.assumptions = ["TLC/SANY/Json trusted", "generic-point argument: the defect of an ill-typed expression is a non-zero polynomial in the "
                       "random integer leaves (re-drawn per seed)", "float32 exact on the integers reached (|v| < 2^24)",
                       "pixel norm enters as its square (integer); the code's norm is compared after squaring to 1e-5"]
    return chk.finish()


def replay(path):
    pl = json.load(open(path))
    core._pool_init()
    fails, _ = replay_chunk(([pl["case"]], pl["input"]))
    for f in fails:
        print("VIOLATION property=C05 replay=%s" % path)
        print("  detail:", core.canon(f["key"])[:500])
    return 1 if fails else 0
