"""C13 -- re-layouts and serialisations of images and models are lossless round trips.

Spec:  MultiImage.tla (to/from vector, to/from scalar channels with the positional layout contract, concat /
       concat_inverse, expand / combine / merge, reshape_pmap, to/from images, pytree flatten), machine
       MultiImageStore.tla.
MC:    RoundTripLaws + ConcatSplitLaw on every reachable store state (objects reached through chains of the
       re-layout operations themselves: non-square dims, 1-3 leading axes of distinct sizes, partial type sets,
       every storage order), d in {1,2,3}.
Replay: every chain into real objects on token values -- position-exact, so not only "the round trip is the
       identity" but every intermediate layout is the specified one.  Thorough adds simulated chains of depth 6.
Model save/load: all leaves bit-equal after load into a differently initialised twin, outputs bit-equal.
"""
import os

import numpy as np

from harness import core, storereplay, tlc

MODULE = "MultiImageStore.tla"
LAYOUT = {"New", "BuildAppend", "RoundTrip", "ViaVector", "Copy", "Concat", "Split", "Expand", "Combine", "Pmap",
          "Subset", "ScalarRT", "ToScalar", "ImagesRT"}


def instances(tier):
    base = dict(Names={"a", "b"}, Ops=LAYOUT, ValMode="token", LossGroup=set(), EmitOps=set(), TerminalOps=set())
    out = [
        dict(base, D=2, Dims=(2, 1), Torus=(True, False), TypeList=(((0, 0), (2, 4)), ((1, 0), (2, 2)), ((2, 1), (2, 2))),
             MaxDepth=3, EmitDepth=3, Orders={(1, 2, 3), (3, 1), (2,)}),
        dict(base, D=1, Dims=(3,), Torus=(False,), TypeList=(((0, 0), (3, 2)), ((0, 1), (3, 4))),
             MaxDepth=3, EmitDepth=3, Orders={(1, 2), (2, 1), (2,)}),
        dict(base, D=3, Dims=(1, 2, 1), Torus=(True, False, True), TypeList=(((0, 1), (6,)), ((1, 0), (2,)), ((1, 1), (4,))),
             MaxDepth=3, EmitDepth=3, Orders={(3, 1, 2), (2, 3)}),
    ]
    if tier == "thorough":
        out += [
            dict(base, D=2, Dims=(1, 3), Torus=(False, False), TypeList=(((0, 0), (2, 3, 2)), ((1, 1), (2, 3, 4)), ((3, 0), (2, 3, 1))),
                 MaxDepth=3, EmitDepth=3, Orders={(1, 2, 3), (3, 2, 1), (2, 1)}),
            dict(base, D=2, Dims=(2, 1), Torus=(True, False), TypeList=(((0, 0), (2, 4)), ((1, 0), (2, 2)), ((2, 1), (2, 2))),
                 MaxDepth=4, EmitDepth=4, Orders={(1, 2, 3), (3, 1)}, Names={"a", "b", "c"}),
        ]
    return out


def saveload_case(args):
    """ml.save / ml.load: leaves and outputs bit-equal after loading into a differently initialised twin."""
    idx, kind, seed = args
    import jax
    import jax.numpy as jnp
    import jax.random as jr
    import equinox as eqx
    import ginjax.geometric as geom
    import ginjax.ml as ml
    import ginjax.models as models
    D = 2
    ops = geom.make_all_operators(D)
    filt = geom.get_invariant_filters([3], [0, 1, 2], [0, 1], D, ops)
    in_k = geom.Signature((((0, 0), 2), ((1, 0), 1)))
    out_k = geom.Signature((((1, 0), 1), ((0, 0), 1)))

    def make(key):
        if kind == "ConvContract":
            return ml.ConvContract(in_k, out_k, filt, use_bias="auto", key=key)
        if kind == "ConvBlock":
            return models.ConvBlock(D, in_k, out_k, conv_filters=filt, use_group_norm=True, key=key)
        if kind == "ResNet":
            return models.ResNet(D, in_k, out_k, depth=2, num_blocks=1, num_conv=2, conv_filters=filt, key=key)
        if kind == "UNet":
            up = geom.get_invariant_filters([2], [0, 1, 2], [0, 1], D, ops)
            return models.UNet(D, in_k, out_k, depth=2, num_downsamples=1, num_conv=1, conv_filters=filt, upsample_filters=up, key=key)
        if kind == "ResNetPlain":
            return models.ResNet(D, in_k, out_k, depth=3, num_blocks=1, num_conv=1, equivariant=False, kernel_size=3, key=key)
        if kind == "DilResNet":
            return models.DilResNet(D, in_k, out_k, depth=2, num_blocks=1, conv_filters=filt, key=key)
        # same-structured twins that differ in their NON-ARRAY leaves as well (settings kept as ordinary, non-static fields):
        # `saved` is the model written to the file, the other one is the template it is loaded into
        inner = lambda: models.ResNet(D, in_k, out_k, depth=2, num_blocks=1, num_conv=1, equivariant=False, kernel_size=3, key=key)
        if kind == "GroupAverageInference":       # what eqx.nn.inference_mode flips before a model is saved for evaluation
            return models.GroupAverage(inner(), [np.asarray(g) for g in ops], inference=saved)
        if kind == "GroupAverageAlways":
            return models.GroupAverage(inner(), [np.asarray(g) for g in ops[:4]], always_average=saved)
        if kind == "GroupAverageOff":             # the reverse direction: an averaging template must not keep averaging
            return models.GroupAverage(inner(), [np.asarray(g) for g in ops], always_average=not saved)
        if kind == "GroupNormEps":
            # order-1 channels only: for order-0 channels the layer hands eps to eqx.nn.GroupNorm, where it is a STATIC field, so
            # twins with different eps would not be same-structured there
            return ml.GroupNorm(geom.Signature((((1, 0), 2), ((1, 1), 1))), D, 1, eps=(0.05 if saved else 1e-5))
        if kind == "GroupNormGroups":
            return ml.GroupNorm(geom.Signature((((1, 0), 2), ((1, 1), 2))), D, (2 if saved else 1))
        if kind == "ModelWrapper":
            cnn = eqx.nn.Conv(D, 4, 3, 3, padding=1, key=key)
            return models.ModelWrapper(D, cnn, out_k, True)
        raise RuntimeError(kind)
    saved = True
    m1 = make(jr.PRNGKey(seed))
    saved = False
    m2 = make(jr.PRNGKey(seed + 1))
    if len(jax.tree_util.tree_leaves(m1)) != len(jax.tree_util.tree_leaves(m2)):
        raise RuntimeError("twin models are not same-structured")
    # move m1 off its initial values so that zero-initialised leaves are exercised too
    leaves, tree = jax.tree_util.tree_flatten(eqx.filter(m1, eqx.is_array))
    pert = [l + 0.25 * jr.normal(jr.PRNGKey(100 + i), l.shape, l.dtype) if jnp.issubdtype(l.dtype, jnp.floating) else l
            for i, l in enumerate(leaves)]
    m1 = eqx.combine(jax.tree_util.tree_unflatten(tree, pert), eqx.filter(m1, eqx.is_array, inverse=True))
    kindof = lambda v: "array" if hasattr(v, "shape") else {bool: "bool", int: "int", float: "float"}.get(type(v), "opaque")
    diffkinds = sorted({kindof(a) for a, b in zip(jax.tree_util.tree_leaves(m1), jax.tree_util.tree_leaves(m2))
                        if (not np.array_equal(np.asarray(a), np.asarray(b)) if hasattr(a, "shape") else a != b)})
    path = os.path.join(tlc.WORK, "model_%d_%d.eqx" % (os.getpid(), idx))
    os.makedirs(tlc.WORK, exist_ok=True)
    fails = []
    try:
        ml.save(path, m1)
        m3 = ml.load(path, m2)
        l1 = jax.tree_util.tree_leaves(eqx.filter(m1, eqx.is_array))
        l3 = jax.tree_util.tree_leaves(eqx.filter(m3, eqx.is_array))
        if len(l1) != len(l3) or any(a.shape != b.shape or not np.array_equal(np.asarray(a), np.asarray(b)) for a, b in zip(l1, l3)):
            fails.append({"key": {"what": "save/load: parameter leaves differ after loading", "model": kind}})
        scal = lambda m: [v for v in jax.tree_util.tree_leaves(m) if isinstance(v, (bool, int, float))]
        if [(type(v), v) for v in scal(m1)] != [(type(v), v) for v in scal(m3)]:
            fails.append({"key": {"what": "save/load: scalar (non-array) leaves of the saved model are not restored", "model": kind}})
        x = geom.MultiImage({(0, 0): jr.normal(jr.PRNGKey(5), (2, 4, 4)), (1, 0): jr.normal(jr.PRNGKey(6), (1, 4, 4, 2))}, D, True)
        if kind == "GroupNormGroups":
            x = geom.MultiImage({(1, 0): jr.normal(jr.PRNGKey(5), (2, 4, 4, 2)), (1, 1): jr.normal(jr.PRNGKey(6), (2, 4, 4, 2))}, D, True)
        if kind == "GroupNormEps":
            x = geom.MultiImage({(1, 0): jr.normal(jr.PRNGKey(5), (2, 4, 4, 2)), (1, 1): jr.normal(jr.PRNGKey(6), (1, 4, 4, 2))}, D, True)
        call = (lambda m: m(x)) if kind in ("ConvContract", "GroupNormEps", "GroupNormGroups") else (lambda m: m(x)[0])
        y1, y3 = call(m1), call(m3)
        if list(y1.keys()) != list(y3.keys()) or any(not np.array_equal(np.asarray(y1[k]), np.asarray(y3[k])) for k in y1.keys()):
            fails.append({"key": {"what": "save/load: outputs differ after loading", "model": kind}})
        y2 = call(m2)
        if all(np.array_equal(np.asarray(y1[k]), np.asarray(y2[k])) for k in y1.keys()):
            raise RuntimeError("anti-vacuity: twin model already equal before loading")
    except RuntimeError:
        raise
    except Exception as ex:
        fails.append({"key": {"what": "save/load raised %s: %s" % (type(ex).__name__, str(ex)[:200]), "model": kind}})
    finally:
        if os.path.exists(path):
            os.remove(path)
    return fails, diffkinds


def main(tier):
    chk = core.Check("C13", tier)
    chk.rule = ("behaviours = complete chains (depth = EmitDepth) of re-layout operations on the store; non-trivial = the chain "
                "contains at least one re-layout step besides constructors; distinct by the whole chain")
    insts = instances(tier)
    jobs = [dict(module_path=MODULE, cfg=tlc.make_cfg(constants=c, invariants=["RoundTripLaws", "ConcatSplitLaw", "Emit"], constraint="InOrder"),
                 constants=c, coverage=False, workers=6, timeout=6000) for c in insts]
    behaviours = []
    for r in tlc.run_many(jobs, parallel=3):
        chk.add_tlc(r, vacuity_actions=("New", "RoundTrip", "ViaVector", "Concat", "Split", "ExpandOp", "CombineOp", "SubsetOp", "ScalarRT", "ImagesRT"))
        if not r.ok:
            chk.spec_violation(r, "round-trip laws fail in the specification itself")
        behaviours += [c["hist"] for c in r.cases]
    chk.exhaustive = True
    sim = dict(insts[0], MaxDepth=6, EmitDepth=6, Names={"a", "b", "c"})
    r = tlc.run(MODULE, tlc.make_cfg(constants=sim, invariants=["RoundTripLaws", "ConcatSplitLaw", "Emit"]), constants=sim, workers=8,
                simulate=dict(num=400 if tier == "quick" else 5000, depth=7, seed=core.SEED + 13), timeout=3000)
    chk.add_tlc(r)
    if not r.ok:
        chk.spec_violation(r, "round-trip laws fail in the specification (simulation)")
    seen = set()
    for c in r.cases:
        h = core.chash(c["hist"])
        if h not in seen:
            seen.add(h)
            behaviours.append(c["hist"])
    core.require_ops(behaviours, ["RoundTrip", "ViaVector", "Concat", "Split", "Expand", "CombineAxes", "MergeAxes", "Pmap", "Subset", "ScalarRT", "ToScalar", "ImagesRT", "Copy"])
    for fails, n in core.pmap(storereplay.replay_chunk, core.shards(behaviours, 64)):
        chk.evaluations += n
        chk.traces += n
        for f in fails:
            chk.report(f["key"], payload=f)
    for h in behaviours:
        if any(s["op"] not in ("New", "BuildAppend", "Copy") for s in h):
            chk.distinct.add(core.chash(h))
    chk.samples = [{"ops": [dict((k, v) for k, v in s.items() if k not in ("after", "after2", "mid", "vec", "img1")) for s in h],
                    "final": {k: h[-1]["after"][k] for k in ("order", "leads")}} for h in behaviours[500:502]]
    # ---- model serialisation -------------------------------------------------------------------------
    kinds = ["ConvContract", "ConvBlock", "ResNet", "ResNetPlain", "GroupAverageInference", "GroupAverageAlways", "GroupAverageOff",
             "GroupNormEps", "GroupNormGroups", "ModelWrapper"] + (["UNet", "DilResNet"] if tier == "thorough" else [])
    # Serialise.tla: Load(Save(m), t) = m for every same-structured template t; it also names the kinds of leaves in which a template
    # may differ from the saved model -- each of them must be exercised by a real save/load below (vacuity guard)
    sconst = dict(MaxLeaves=2, Vals={0, 1})
    rs = tlc.run("Serialise.tla", tlc.make_cfg(constants=sconst, invariants=["Laws"]), constants=sconst, workers=4, timeout=900)
    chk.add_tlc(rs)
    if not rs.ok:
        chk.spec_violation(rs, "Serialise.tla: round-trip law")
    need = {k for pat in rs.cases[0]["patterns"] for k in pat}
    seen = set()
    for fails, diffkinds in core.pmap(saveload_case, [(i, k, core.SEED + 31 * i) for i, k in enumerate(kinds)], procs=6, crash_value=([], [])):
        chk.evaluations += 1
        chk.traces += 1
        seen |= set(diffkinds)
        for f in fails:
            chk.report(f["key"], payload=f)
    if not need <= seen:
        raise RuntimeError("vacuity: no saved model / template pair differs in leaves of kind %s" % sorted(need - seen))
    chk.extra["saveload_models"] = kinds
    chk.assumptions = ["TLC/SANY/Json trusted", "float32 exact on token values", "chains of bounded depth over the listed base signatures"]
    return chk.finish()


def replay(path):
    import json
    pl = json.load(open(path))
    core._pool_init()
    if "hist" not in pl:
        print("save/load findings are re-run by the full check")
        return 2
    fails, _ = storereplay.replay_chunk([pl["hist"]])
    for f in fails:
        print("VIOLATION property=C13 replay=%s" % path)
        print("  detail:", core.canon(f["key"])[:500])
    return 1 if fails else 0
