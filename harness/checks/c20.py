"""C20 -- every model maps its input signature to exactly its requested output signature.

Spec:  Architectures.tla -- the forward pass of U-Net / ResNet / dilated ResNet (equivariant and conventional mode) compiled into a
       stage list; each stage enabled exactly when the code's look-ups and asserts succeed.
MC:    MC_Architectures over the bounded constructor space: ArchInv (admissible configurations never get stuck, channel arithmetic
       depth*2^level and skip doubling are consistent, spatial shape preserved, output = requested types / channels / ORDER).
Trace: real models are built for a seeded, stratified sample of the configurations TLC visited (admissible and not); one forward
       pass is recorded stage by stage (harness-level wrappers on the layer classes and on MultiImage.concat / __add__ /
       to_scalar_multi_image / from_scalar_multi_image) and validated by Trace_Architectures: kind, signature and extents of every
       stage, then the ordered output signature, extents, D and boundary flags -- or the failure the spec predicts.
"""
import random

from harness import archlib, core, tlc, tracelib


def mc_constants(tier, D=2):
    core.setup_repo_path()
    conv_keys, up_keys = archlib.bank_keysets(D)
    S, PS, V, PV, T2 = (0, 0), (0, 1), (1, 0), (1, 1), (2, 0)
    sigs = {((S, 1),), ((S, 2), (V, 1)), ((V, 1), (S, 2)), ((PS, 1), (V, 2)), ((V, 2), (PV, 1), (S, 1))}
    twins = ((S, 1), (PS, 2), (V, 1))          # both parities of one order with unequal channel counts, the smaller first
    if tier == "thorough":
        sigs |= {((T2, 1), (S, 1)), ((PV, 1),), twins}
    low = frozenset(k for k in conv_keys if k[0] <= 1)
    banks = {frozenset(conv_keys), low, frozenset({(0, 0)})}
    ups = {frozenset(up_keys), frozenset({(0, 0)})}
    dimset = {(4, 4), (4, 2), (6, 4)} if D == 2 else {(2, 2, 2), (4, 2, 2)}
    # a signature of order-0 types only, one of them a pseudoscalar: the mid signature (union of input and output types) then has
    # no block of order >= 1, the case in which a shortcut to element-wise activations / plain max pooling is wrong
    ps_only = ((PS, 1),)
    return dict(Classes={"UNet", "ResNet", "DilResNet"}, Equivs={True, False}, DSet={D}, InSigs=sigs | {ps_only}, OutSigs=sigs | {twins, ps_only}, Depths={2},
                BlockSet={1, 2}, NConvs={1, 2}, NDowns={0, 1, 2}, GNs={True, False}, Preacts={True, False}, Banks=banks, UpBanks=ups,
                DimSet=dimset)


def cost(c):
    cf = c["cfg"]
    n = c["nstages"]
    return n * (3 if cf["D"] == 3 else 1)


def sample_cfgs(cases, rng, n):
    """stratified by (class, mode, outcome), cheapest first within a stratum"""
    strata = {}
    for c in cases:
        cf = c["cfg"]
        if cf["cls"] == "DilResNet" and cf["blocks"] > 1:
            continue
        if c["stuck"].startswith("pool:"):
            continue          # extents incompatible with the pooling are outside the property's domain (the code does not reject them)
        # U-Nets: every (down-samples, convs per level) wiring is its own stratum (channel arithmetic and skip order differ)
        wiring = (cf["ndown"], cf["nconv"]) if cf["cls"] == "UNet" else (cf["nconv"] if cf["cls"] == "ResNet" else 0)
        key = (cf["cls"], cf["equiv"], c["admissible"], c["stuck"] != "", wiring)
        strata.setdefault(key, []).append(c)
    out = []
    keys = sorted(strata, key=str)
    while len(out) < n and any(strata.values()):
        for k in keys:
            if strata[k] and len(out) < n:
                strata[k].sort(key=cost)
                pool = strata[k][: max(4, len(strata[k]) // 6)]
                pick = rng.choice(pool)
                strata[k].remove(pick)
                out.append(pick)
    return out


def order_chunk(chunk):
    """the decode layer alone: output blocks in the REQUESTED order (MC_LayerSig!Emitted is an ordered sequence)"""
    import jax.numpy as jnp
    import jax.random as jr
    import numpy as np
    import ginjax.geometric as geom
    import ginjax.ml as ml
    from harness import convlib, layerlib
    D, N, M = 2, (4, 2), 3
    rs = np.random.RandomState(0)
    fails = []
    for c in chunk:
        key = {"ins": c["ins"], "tgt": c["tgt"], "bank": c["bank"], "mode": c["mode"]}
        try:
            bank = geom.MultiImage({(k, p): jnp.asarray(rs.randn(2, M, M, *((D,) * k)).astype(np.float32)) for k, p in c["bank"]}, D, True)
            layer = ml.ConvContract(geom.Signature(tuple(((t[0], t[1]), n) for t, n in c["ins"])),
                                    geom.Signature(tuple(((t[0], t[1]), n) for t, n in c["tgt"])), bank, layerlib.MODE_ARG[c["mode"]], key=jr.PRNGKey(0))
            x = geom.MultiImage({(t[0], t[1]): jnp.asarray(rs.randn(n, *N, *((D,) * t[0])).astype(np.float32)) for t, n in c["ins"]}, D, True)
            got = [[list(k), n] for k, n in convlib.quiet(layer, x).get_signature()]
            if got != c["out"] and sorted(map(str, got)) == sorted(map(str, c["out"])):
                fails.append({"key": dict(key, what="ConvContract emits its blocks in another order than requested", expected=c["out"], observed=got)})
        except Exception as ex:
            fails.append({"key": dict(key, what="raised %s: %s" % (type(ex).__name__, str(ex)[:200]))})
    return fails, len(chunk)


def record_case(args):
    tid, case, seed = args
    events, out, _ = archlib.record_forward(case["cfg"], seed)
    return {"tid": tid, "cfg": case["cfg"], "events": events, "admissible": case["admissible"], "stuck": case["stuck"]}


def main(tier):
    chk = core.Check("C20", tier)
    chk.rule = ("MC: every configuration of the bounded constructor space; traces: a seeded sample stratified by (class, mode, admissible, "
                "predicted failure); non-trivial = more than one type, or an unreachable requested type, or a predicted failure; distinct by cfg")
    jobs = []
    for D in ((2,) if tier == "quick" else (2, 3)):
        consts = mc_constants(tier, D)
        jobs.append(dict(module_path="mc/MC_Architectures.tla", cfg=tlc.make_cfg(constants=consts, invariants=["AInv", "Emit"]), constants=consts,
                         workers=8, coverage=False, timeout=6000))       # -coverage 1 doubles the run time here; vacuity guard below
    cases = []
    for r in tlc.run_many(jobs, parallel=2):
        chk.add_tlc(r)
        if r.ok and not (len(r.cases) > 100 and r.distinct > 2 * len(r.cases)):      # PickCfg states are emitted, Run states follow each
            raise RuntimeError("vacuity: MC_Architectures visited %d states, %d configurations" % (r.distinct, len(r.cases)))
        if not r.ok:
            chk.spec_violation(r, "architecture invariant fails in the specification itself")
        cases += r.cases
    chk.exhaustive = True
    if not any(c["admissible"] and c["cfg"]["equiv"] for c in cases) or not any(c["stuck"] for c in cases):
        raise RuntimeError("vacuity: constructor space has no admissible equivariant / no failing configuration")
    rng = random.Random(core.SEED + 20)
    cases.sort(key=lambda c: core.canon(c["cfg"]))
    picks = sample_cfgs(cases, rng, 40 if tier == "quick" else 320)
    # parity twins with unequal channel counts in the requested output (a per-type channel offset bug shows only there):
    # two more admissible equivariant configurations per class
    def has_twins(c):
        outs = c["cfg"]["outs"]
        return any(a[0][0] == b[0][0] and a[0] != b[0] and a[1] != b[1] for a in outs for b in outs)
    picked = {core.canon(c["cfg"]) for c in picks}
    for cls in ("UNet", "ResNet", "DilResNet"):
        cand = sorted([c for c in cases if has_twins(c) and c["admissible"] and c["cfg"]["equiv"] and c["stuck"] == "" and c["cfg"]["cls"] == cls
                       and core.canon(c["cfg"]) not in picked and not (cls == "DilResNet" and c["cfg"]["blocks"] > 1)], key=cost)
        cand = cand[: max(4, len(cand) // 6)]
        picks += rng.sample(cand, min(2 if tier == "quick" else 8, len(cand)))
    traces = core.pmap(record_case, [(i + 1, c, core.SEED + i) for i, c in enumerate(picks)], procs=14, crash_value=None)
    traces = [t for t in traces if t is not None]
    verdicts = tracelib.validate(chk, "trace/Trace_Architectures.tla", [{"tid": t["tid"], "cfg": t["cfg"], "events": t["events"]} for t in traces],
                                 workers=8, extra_invariants=("AInv",))
    for t in traces:
        v = verdicts[t["tid"]]
        chk.evaluations += 1
        chk.traces += 1
        cf = t["cfg"]
        if len(cf["ins"]) > 1 or len(cf["outs"]) > 1 or t["stuck"] or not t["admissible"]:
            chk.distinct.add(core.chash(cf))
        if v[0] == "REJECT":
            ev = t["events"][v[1] - 1]
            chk.report({"what": "forward-pass trace rejected: " + v[2], "cls": cf["cls"], "equiv": cf["equiv"], "event_index": v[1],
                        "event": ev, "cfg": cf, "spec_predicted_failure": t["stuck"]}, payload={"trace": t})
    # ---- the decode layer's block order, at the layer level (signature lattice of MC_LayerSig) -----------------
    from harness.checks import c11
    lc = c11.sig_cases("quick")
    r = tlc.run("mc/MC_LayerSig.tla", tlc.make_cfg(constants=lc, invariants=["Laws", "Emit"]), constants=lc, workers=8, coverage=True, timeout=3000)
    chk.add_tlc(r, vacuity_actions=("Pick",))
    multi = sorted([c for c in r.cases if len(c["out"]) >= 2], key=core.canon)
    pick = rng.sample(multi, min(160 if tier == "quick" else 1500, len(multi)))
    for fails, n in core.pmap(order_chunk, core.shards(pick, 32)):
        chk.evaluations += n
        chk.traces += n
        for f in fails:
            chk.report(f["key"], payload=f)
    for c in pick:
        chk.distinct.add(core.chash(c))
    t0 = traces[0]
    chk.samples.append({"cfg": t0["cfg"], "events": [[e["kind"], e.get("sig")] for e in t0["events"]][:10]})
    chk.extra["constructor_space"] = {"configurations": len(cases), "admissible": sum(1 for c in cases if c["admissible"]),
                                      "predicted_failures": sum(1 for c in cases if c["stuck"]), "traces": len(traces)}
    chk.assumptions = ["TLC/SANY/Json trusted", "type order is checked on direct application (jit/vmap sort dictionary keys themselves)",
                       "bank key sets are those of the library's own B_d banks (3^d conv, 2^d up-sampling) and restrictions of them"]
    return chk.finish()


def replay(path):
    import json
    pl = json.load(open(path))
    core._pool_init()
    t = pl["trace"]
    case = {"cfg": t["cfg"], "admissible": t["admissible"], "stuck": t["stuck"]}
    tr = record_case((1, case, core.SEED))
    chk = core.Check("C20", "quick")
    v = tracelib.validate(chk, "trace/Trace_Architectures.tla", [{"tid": 1, "cfg": tr["cfg"], "events": tr["events"]}], workers=2, extra_invariants=("AInv",))[1]
    if v[0] == "REJECT":
        print("VIOLATION property=C20 replay=%s" % path)
        print("  detail: rejected at event %d: %s" % (v[1], v[2]))
        return 1
    return 0
