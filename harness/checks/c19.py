"""C19 -- stopping conditions stop training exactly when specified, for any loss history.

Spec:  Stopping.tla (operational rule vs declarative reading), TrainLoop.tla (the loop around it).
MC:    MC_Stopping: every history over a 4-letter alphabet up to MaxLen, patience 0..P, min_delta {0,1}: Agree;
       EpochStop: epochs 1..4.  MC_TrainLoop: LoopInv over all loss histories x epoch permutations, and
       termination (<> returned) under weak fairness on a non-improving history.
A (spec -> code): every maximal history is walked through TrainLoss / ValLoss / EpochStop with the loss
       delivered as Python float, numpy.float32, numpy.float64 and 0-d JAX array; after every call the
       return value and the identity of best_model are compared with the spec state.
B (code -> spec): real ml.train runs on a scripted-loss model (SGD-advanced step counter, loss = table[step]),
       recorded through a logging proxy and harness-level wrappers, validated by Trace_TrainLoop.
"""
import os
import random

import numpy as np

from harness import core, tlc, tracelib

ALPHABET = {1, 2, 3, 5}


def configs(tier):
    P = [0, 1, 2] if tier == "quick" else [0, 1, 2, 3]
    maxlen = 5 if tier == "quick" else 7
    out = []
    for p in P:
        for md in (0, 1):
            out.append(dict(Kind="patience", Patience=p, MinDelta=md, Epochs=0, Alphabet=ALPHABET, MaxLen=maxlen))
    for e in (0, 1, 2, 3, 4):          # 0: the condition is already met before the first epoch
        out.append(dict(Kind="epochs", Patience=0, MinDelta=0, Epochs=e, Alphabet={1, 2}, MaxLen=5))
    return out


REPRS = ("float", "np32", "np64", "jax")


def _conv(v, rep):
    if rep == "float":
        return float(v)
    if rep == "np32":
        return np.float32(v)
    if rep == "np64":
        return np.float64(v)
    import jax.numpy as jnp
    return jnp.asarray(v, dtype=jnp.float32)


def replay_config(args):
    consts, cases, seed = args
    import ginjax.ml as ml
    exp = {tuple(c["hist"]): (c["stopped"], c["bestEpoch"]) for c in cases}
    maxlen = consts["MaxLen"]
    maximal = [h for h, (st, _) in exp.items() if st or len(h) == maxlen]
    fails, n_eval = [], 0
    kind = consts["Kind"]
    classes = ["TrainLoss", "ValLoss"] if kind == "patience" else ["EpochStop"]
    for hi, h in enumerate(sorted(maximal)):
        for cls in classes:
            for rep in REPRS:
                n_eval += 1
                models = ["model%d" % i for i in range(len(h) + 1)]
                models = [type("M", (), {"name": m})() for m in models]
                if cls == "EpochStop":
                    cond = ml.EpochStop(consts["Epochs"])
                else:
                    cond = getattr(ml, cls)(patience=consts["Patience"], min_delta=consts["MinDelta"])
                cond.best_model = models[0]                      # what ml.train does before the loop
                key = {"cls": cls, "repr": rep, "patience": consts["Patience"], "min_delta": consts["MinDelta"],
                       "epochs": consts["Epochs"], "hist": list(h)}
                try:
                    r0 = cond.stop(models[0], 0, None, None, 0.0)
                    st0 = exp.get((), (False, 0))[0]            # TRUE only for EpochStop(0)
                    if bool(r0) != st0:
                        fails.append({"key": dict(key, what="stopped before the first epoch" if r0 else "EpochStop(0) did not stop before the first epoch", at=0)})
                        continue
                    if st0:
                        if cond.best_model is not models[0]:
                            fails.append({"key": dict(key, what="best_model is not the model handed in", at=0)})
                        continue
                    for i, l in enumerate(h, 1):
                        decoy = (100 - i) if hi % 2 == 0 else (100 + i)   # the non-monitored quantity must be ignored
                        tl, vl = (l, decoy) if cls != "ValLoss" else (decoy, l)
                        ret = cond.stop(models[i], i, _conv(tl, rep), _conv(vl, rep), 0.0)
                        st, be = exp[tuple(h[:i])]
                        if bool(ret) != st:
                            fails.append({"key": dict(key, what="stop() returned %s, specification says %s" % (bool(ret), st), at=i)})
                            break
                        if cond.best_model is not models[be]:
                            got = getattr(cond.best_model, "name", "?")
                            fails.append({"key": dict(key, what="best_model is %s, specification says model%d" % (got, be), at=i)})
                            break
                        if st:
                            break
                except Exception as ex:
                    fails.append({"key": dict(key, what="raised %s: %s" % (type(ex).__name__, str(ex)[:200]))})
    return fails, n_eval, len(maximal)


def train_run(args):
    """One real ml.train run with scripted epoch losses; returns the recorded trace."""
    tid, spec, seed = args
    import jax.random as jr
    import optax
    import ginjax.ml as ml
    from harness import trainrec
    L, B, nb = spec["L"], spec["B"], spec["L"] // spec["B"]
    hist, fill = spec["hist"], spec["fill"]
    n_ep = len(hist) + spec["extra"]
    per_epoch = list(hist) + [fill] * (spec["extra"] + 2)
    # the step losses VARY inside an epoch (first batch + (nb-1), the others -1) and average to the scripted epoch value, so
    # that an epoch loss built from the last / first step, or a wrongly weighted mean, differs from the script
    off = lambda j: (nb - 1) if j == 0 else -1
    table = [per_epoch[min(s // nb, len(per_epoch) - 1)] + (off(s % nb) if nb > 1 else 0) for s in range(nb * (n_ep + 3))]
    # the validation loss is read after the epoch's steps: model version e*nb -> table index e*nb
    vtab_epoch = list(spec["vhist"]) + [spec["vfill"]] * (spec["extra"] + 2)
    vtable = [vtab_epoch[min(max(s // nb - 1, 0), len(vtab_epoch) - 1)] for s in range(nb * (n_ep + 3))]
    model, mal = trainrec.make_scripted(table, vtable)
    X, Y = trainrec.token_dataset(L)
    kw = dict(X=X, Y=Y, map_and_loss=mal, model=model, rand_key=jr.PRNGKey(seed), batch_size=B,
              optimizer=optax.sgd(1.0))
    if spec["hasval"]:
        VX, VY = trainrec.token_dataset(spec["LV"], offset=trainrec.VAL_OFFSET)
        kw.update(validation_X=VX, validation_Y=VY)
    if spec["kind"] == "epochs":
        kw["stop_condition"] = ml.EpochStop(spec["epochs"])
    elif spec["monitor"] == "train":
        kw["stop_condition"] = ml.TrainLoss(patience=spec["patience"], min_delta=spec["mindelta"])
    else:
        kw["stop_condition"] = ml.ValLoss(patience=spec["patience"], min_delta=spec["mindelta"])
    # the devices are always named explicitly (ml.train defaults to ALL devices, and the workers may see several forced
    # host-platform devices, core.host_devices); ndev > 1 is a real pmap
    import jax
    if len(jax.devices()) < spec.get("ndev", 1):
        raise RuntimeError("train_run: %d devices requested, %d present" % (spec["ndev"], len(jax.devices())))
    kw["devices"] = jax.devices()[: spec.get("ndev", 1)]
    rec = trainrec.Recorder(max_epochs=n_ep)
    tmpd = None
    if spec.get("save"):
        import tempfile
        tmpd = tempfile.mkdtemp(prefix="c19-save-")
        kw["save_model"] = os.path.join(tmpd, "model.eqx")
    try:
        rec.run(kw)
    except Exception as ex:
        rec.events.append({"ev": "Raised", "what": "%s: %s" % (type(ex).__name__, str(ex)[:200])})
    if tmpd:
        import shutil
        shutil.rmtree(tmpd, ignore_errors=True)
    cfg = dict(kind=spec["kind"], monitor=spec["monitor"], patience=spec["patience"], mindelta=spec["mindelta"],
               epochs=spec["epochs"], L=L, B=B, keyed=True, hasval=spec["hasval"], LV=spec["LV"], focus=spec.get("focus", "stop"),
               script=per_epoch, vscript=vtab_epoch)
    return {"tid": tid, "cfg": cfg, "events": rec.events, "spec": spec, "errors": rec.harness_errors}


def make_train_specs(rng, by_cfg, n):
    """scripts drawn from the stopped histories TLC generated"""
    specs = []
    pat = [(c, cs) for c, cs in by_cfg if c["Kind"] == "patience"]
    for i in range(n):
        if i % 4 == 3:
            e = rng.choice([1, 2, 3])
            specs.append(dict(kind="epochs", monitor="train", patience=0, mindelta=0, epochs=e, hist=[3] * e, fill=3,
                              vhist=[3] * e, vfill=3, extra=1, L=rng.choice([4, 5, 6]), B=2, hasval=False, LV=2))
            continue
        consts, cases = pat[i % len(pat)]
        stopped = [c["hist"] for c in cases if c["stopped"] and len(c["hist"]) >= 2]
        h = rng.choice(stopped)
        mon = "val" if i % 2 == 1 else "train"
        decoy = [100 - j for j in range(len(h))]          # the other quantity keeps improving: must be ignored
        specs.append(dict(kind="patience", monitor=mon, patience=consts["Patience"], mindelta=consts["MinDelta"], epochs=0,
                          hist=h if mon == "train" else decoy, fill=max(h) if mon == "train" else 1,
                          vhist=h if mon == "val" else decoy, vfill=max(h) if mon == "val" else 1,
                          extra=consts["Patience"] + 2, L=rng.choice([4, 6, 7]), B=rng.choice([2, 3]),
                          hasval=(mon == "val") or (i % 3 == 0), LV=rng.choice([2, 3, 4]) if True else 2))
    # one longer EpochStop run that crosses the every-10-epochs `save_model` branch of ml.train
    specs.append(dict(kind="epochs", monitor="train", patience=0, mindelta=0, epochs=11, hist=[3] * 11, fill=3, vhist=[3] * 11, vfill=3,
                      extra=1, L=4, B=2, hasval=False, LV=2, save=True))
    # the boundary count: EpochStop(0) must stop BEFORE the first epoch and hand back the model it was given
    specs.append(dict(kind="epochs", monitor="train", patience=0, mindelta=0, epochs=0, hist=[3], fill=3, vhist=[3], vfill=3,
                      extra=1, L=4, B=2, hasval=False, LV=2))
    for s in specs:
        if s["LV"] < s["B"]:
            s["LV"] = s["B"]
    return specs


def apalache_inductive():
    """Init => IndInv and IndInv /\\ Next => IndInv' for spec/apalache/StoppingInd.tla; a failure to run is a machinery failure"""
    import shutil
    import subprocess
    import tempfile
    out = tempfile.mkdtemp(prefix="apa-", dir=tlc.WORK if os.path.isdir(tlc.WORK) else None)
    res = {}
    try:
        for name, args in (("base", ["--init=Init", "--length=0"]), ("step", ["--init=IndInit", "--length=1"])):
            p = subprocess.run(["apalache-mc", "check", "--cinit=ConstInit", "--inv=IndInv", "--out-dir=" + out] + args + ["StoppingInd.tla"],
                               cwd=os.path.join(tlc.SPEC, "apalache"), capture_output=True, text=True, timeout=900)
            txt = p.stdout + p.stderr
            if "EXITCODE: OK" not in txt:
                raise RuntimeError("apalache %s obligation not discharged:\n%s" % (name, txt[-1500:]))
            res[name] = "discharged"
    finally:
        shutil.rmtree(out, ignore_errors=True)
    res["constants"] = "Patience in 0..5, MinDelta in 0..3, losses over all integers, unbounded epochs"
    return res


def main(tier):
    chk = core.Check("C19", tier)
    chk.rule = ("A: every maximal loss history TLC generates x condition class x scalar representation; B: real ml.train "
                "runs scripted from TLC-generated stopped histories; non-trivial = history in which the verdict is 'stop' "
                "or an improvement is followed by a non-improvement; distinct by (class, repr, patience, min_delta, history)")
    cfgs = configs(tier)
    jobs = [dict(module_path="mc/MC_Stopping.tla", cfg=tlc.make_cfg(constants=c, invariants=["Agree", "Emit"]),
                 constants=c, coverage=True, workers=2, timeout=1200) for c in cfgs]
    by_cfg = []
    for c, r in zip(cfgs, tlc.run_many(jobs, parallel=8)):
        # EpochStop(0) is stopped in its initial state: no Observe step is ever enabled there, by design
        chk.add_tlc(r, vacuity_actions=() if (c["Kind"] == "epochs" and c["Epochs"] == 0) else ("Next",))
        if not r.ok:
            chk.spec_violation(r, "operational and declarative stopping rules disagree in the specification")
        by_cfg.append((c, r.cases))
    # design of the loop around it
    loops = [
        dict(Kind="patience", Monitor="train", Patience=1, MinDelta=0, Epochs=0, L=3, B=1, HasVal=False, Alphabet={1, 2, 3}, MaxEpoch=4),
        dict(Kind="patience", Monitor="val", Patience=0, MinDelta=1, Epochs=0, L=4, B=2, HasVal=True, Alphabet={1, 3}, MaxEpoch=4),
        dict(Kind="epochs", Monitor="train", Patience=0, MinDelta=0, Epochs=2, L=3, B=2, HasVal=False, Alphabet={1, 2}, MaxEpoch=4),
    ]
    jobs = [dict(module_path="mc/MC_TrainLoop.tla", cfg=tlc.make_cfg(constants=c, invariants=["LoopInv"], constraint="Bound"),
                 constants=c, coverage=True, workers=4) for c in loops]
    live = dict(Kind="patience", Monitor="val", Patience=2, MinDelta=1, Epochs=0, L=4, B=2, HasVal=True, Alphabet={2}, MaxEpoch=9)
    jobs.append(dict(module_path="mc/MC_TrainLoop.tla", constants=live, coverage=True, workers=4,
                     cfg=tlc.make_cfg(constants=live, invariants=["LoopInv"], specification="Spec", properties=["Terminates"])))
    # the boundary count in the loop design: with EpochStop(0) the loop is Init -> StopCheck (TRUE) -> Return, no batch is ever made
    zero = dict(Kind="epochs", Monitor="train", Patience=0, MinDelta=0, Epochs=0, L=3, B=2, HasVal=False, Alphabet={1, 2}, MaxEpoch=4)
    jobs.append(dict(module_path="mc/MC_TrainLoop.tla", constants=zero, coverage=True, workers=2,
                     cfg=tlc.make_cfg(constants=zero, invariants=["LoopInv"], specification="Spec", properties=["Terminates"])))
    for r in tlc.run_many(jobs, parallel=4):
        is_zero = r.constants.get("Kind") == "epochs" and r.constants.get("Epochs") == 0
        if is_zero and (r.coverage.get("DoTrainStep", (0, 0))[0] != 0 or r.coverage.get("MakeBatches", (0, 0))[0] != 0):
            raise RuntimeError("MC_TrainLoop with Epochs = 0 took a training step")
        chk.add_tlc(r, vacuity_actions=("StopCheck", "Return") if is_zero else ("StopCheck", "MakeBatches", "DoTrainStep", "Return"))
        if not r.ok:
            chk.spec_violation(r, "training-loop design invariant / termination fails in the specification")
    chk.exhaustive = True
    # unbounded safety of the operational rule: inductive invariant discharged by Apalache (any integer losses, any number of epochs)
    chk.extra["apalache_inductive_invariant"] = apalache_inductive()

    # ---- A: replay ---------------------------------------------------------------------------------
    n_max = 0
    for fails, n_eval, nm in core.pmap(replay_config, [(c, cs, core.SEED) for c, cs in by_cfg], crash_value=([], 0, 0)):
        chk.evaluations += n_eval
        chk.traces += n_eval
        n_max += nm
        for f in fails:
            chk.report(f["key"], payload=f)
    for c, cs in by_cfg:
        for case in cs:
            if case["stopped"]:
                chk.distinct.add(core.chash([c["Kind"], c["Patience"], c["MinDelta"], c["Epochs"], case["hist"]]))
    chk.samples.append({"history": by_cfg[2][1][17]["hist"], "stopped": by_cfg[2][1][17]["stopped"],
                        "bestEpoch": by_cfg[2][1][17]["bestEpoch"], "patience": by_cfg[2][0]["Patience"], "min_delta": by_cfg[2][0]["MinDelta"]})

    # ---- B: real training runs, trace-validated -----------------------------------------------------
    rng = random.Random(core.SEED + 19)
    specs = make_train_specs(rng, by_cfg, 8 if tier == "quick" else 48)
    for s in specs:                                    # every run whose batch size allows it: on two devices for every other one
        if s["B"] % 2 == 0 and specs.index(s) % 2 == 0:
            s["ndev"] = 2
    with core.host_devices(4):
        traces = core.pmap(train_run, [(i + 1, s, core.SEED + i) for i, s in enumerate(specs)], procs=8)
    for t in traces:
        if t["errors"]:
            raise RuntimeError("harness error in scripted run: %s" % t["errors"][:2])
    verdicts = tracelib.validate(chk, "trace/Trace_TrainLoop.tla",
                                 [{"tid": t["tid"], "cfg": t["cfg"], "events": t["events"]} for t in traces])
    for t in traces:
        v = verdicts[t["tid"]]
        chk.evaluations += 1
        chk.traces += 1
        chk.distinct.add(core.chash(["train", t["spec"]]))
        if v[0] == "REJECT":
            ev = t["events"][v[1] - 1]
            chk.report({"cls": {"train": "TrainLoss", "val": "ValLoss"}[t["cfg"]["monitor"]] if t["cfg"]["kind"] == "patience" else "EpochStop",
                        "what": "ml.train trace rejected: " + v[2], "event_index": v[1], "event": {k: ev[k] for k in ev if k != "obs"},
                        "script": t["spec"]}, payload={"trace": t})
    chk.samples.append({"train_trace_events": [e["ev"] for e in traces[0]["events"]][:14], "script": traces[0]["spec"]})
    chk.assumptions = ["TLC/SANY/Json trusted", "histories bounded by MaxLen over a 4-letter alphabet; patience <= 2 (quick) / 3",
                       "scripted-loss model: SGD(lr=1) advances a step counter exactly (float32, small integers)"]
    return chk.finish()


def replay(path):
    import json
    pl = json.load(open(path))
    core._pool_init()
    key = pl["key"]
    if "trace" in pl:
        with core.host_devices(4):
            t = core.pmap(train_run, [(1, pl["trace"]["spec"], core.SEED)], procs=1, crash_value=None)[0]
        chk = core.Check("C19", "quick")
        v = tracelib.validate(chk, "trace/Trace_TrainLoop.tla", [{"tid": 1, "cfg": t["cfg"], "events": t["events"]}])[1]
        if v[0] == "REJECT":
            print("VIOLATION property=C19 replay=%s" % path)
            print("  detail: trace rejected at event %d: %s" % (v[1], v[2]))
            return 1
        return 0
    consts = dict(Kind="patience" if key["cls"] != "EpochStop" else "epochs", Patience=key["patience"], MinDelta=key["min_delta"],
                  Epochs=key["epochs"], Alphabet=ALPHABET if key["cls"] != "EpochStop" else {1, 2}, MaxLen=max(len(key["hist"]), 1))
    r = tlc.run("mc/MC_Stopping.tla", tlc.make_cfg(constants=consts, invariants=["Agree", "Emit"]), constants=consts, workers=2)
    fails, _, _ = replay_config((consts, r.cases, 0))
    fails = [f for f in fails if f["key"]["hist"] == key["hist"] or True]
    for f in fails[:5]:
        print("VIOLATION property=C19 replay=%s" % path)
        print("  detail:", core.canon(f["key"])[:400])
    return 1 if fails else 0
