"""C17 -- mini-batching is an aligned partition of the data set.

Spec:  TrainLoop.tla (MakeBatches / BatchGuards), MC_TrainLoop (all epoch orders for small L, B: LoopInv).
Binding (code -> spec, trace validation): ml.get_batches is called on 1..3 co-batched token multi-images with
different type sets, for all (L, B <= L), with and without key, for device counts dividing B (a list of n
device handles: only its length is used).  The recorder reads the sample index back from every returned block
(device axis flattened) and TLC accepts the event iff one duplicate-free order explains every multi-image and
every type, with floor(L/B) batches of B, identity order without key, and the same order as with one device.
Also validated: the MakeBatches events of real ml.train runs (C19's recorder), and recorded runs of
ml.map_loss_in_batches / ml.map_plus_loss_in_batches on 1, 2 and 4 (forced host-platform) devices against the
EvalBatches / EvalStep / EvalReturn actions (design: MC_EvalLoop, EvalInv): batches aligned, every batch evaluated
once in order on the given model in inference mode, device mean and batch mean exact, mapped output in batch order.
"""
import itertools
import os
import random

import numpy as np

from harness import core, tlc, tracelib

TYPESETS = [((0, 0), (1, 0)), ((0, 1),), ((2, 0), (0, 0), (1, 1))]


def record_chunk(chunk):
    import jax
    import jax.numpy as jnp
    import jax.random as jr
    import ginjax.geometric as geom
    import ginjax.ml as ml
    dev = jax.devices()[0]
    out = []
    for tid, L, B, n_mi, keyseed, ndev in chunk:
        D, N = 2, 2
        mis = []
        for ts in TYPESETS[:n_mi]:
            data = {}
            for ci, (k, p) in enumerate(ts):
                shp = (L, 1 + ci) + (N,) * D + (D,) * k
                a = np.broadcast_to(np.arange(L, dtype=np.float32).reshape((L,) + (1,) * (len(shp) - 1)), shp)
                data[(k, p)] = jnp.asarray(np.ascontiguousarray(a))
            mis.append(geom.MultiImage(data, D, True))
        key = None if keyseed is None else jr.PRNGKey(keyseed)

        def observe(devices):
            arg = mis[0] if (n_mi == 1 and tid % 2 == 0) else tuple(mis)     # both accepted call shapes
            res = ml.get_batches(arg, B, key, devices)
            obs = []
            for mi_i, blist in enumerate(res):
                for b_i, mi in enumerate(blist):
                    for (k, p), block in mi.items():
                        a = np.asarray(block)
                        ok_shape = a.shape[:2] == (len(devices), B // len(devices))
                        flat = a.reshape((B, -1))
                        idx = [int(round(float(v))) for v in flat[:, 0]]
                        if not np.all(flat == flat[:, :1]) or not ok_shape:
                            idx = [-1] * B
                        obs.append({"mi": mi_i + 1, "type": [k, p], "batch": b_i + 1, "idx": idx})
            return obs, len(res)
        try:
            obs, n_lists = observe([dev] * ndev)
            ev = {"ev": "MakeBatches", "obs": obs, "n_lists": n_lists}
            if ndev > 1:
                ev["ref"] = [o for o in observe([dev])[0] if o["mi"] == 1 and o["type"] == list(TYPESETS[0][0])]
            events = [ev]
        except Exception as ex:
            events = [{"ev": "Raised", "what": "%s: %s" % (type(ex).__name__, str(ex)[:200])}]
        cfg = dict(kind="epochs", monitor="train", patience=0, mindelta=0, epochs=1, L=L, B=B, keyed=key is not None,
                   hasval=False, LV=B, start="batching")
        out.append({"tid": tid, "cfg": cfg, "events": events, "n_mi": n_mi, "ndev": ndev, "keyseed": keyseed})
    return out


def eval_chunk(chunk):
    """Recorded executions of ml.map_loss_in_batches / ml.map_plus_loss_in_batches (and, inside them, get_batches and
    evaluate, both looked up as module globals: swapped for logging wrappers for the duration of the call).  Runs in a
    worker whose XLA host platform exposes 4 CPU devices, so the pmap over 1, 2 or 4 devices is a real one."""
    import equinox as eqx
    import jax
    import jax.numpy as jnp
    import jax.random as jr
    import ginjax.ml.training as T
    from harness import trainrec

    class Ident(eqx.Module):
        inference: bool = False                      # eqx.nn.inference_mode flips every field of this name

        def __call__(self, x, aux_data=None):
            return x, aux_data
    devs = jax.devices()
    if len(devs) < 4:
        raise RuntimeError("the forced host-platform device count did not take effect (%d devices)" % len(devs))
    out = []
    for tid, L, B, keyseed, ndev, withmap in chunk:
        X, Y = trainrec.token_dataset(L)
        model = Ident()
        key = None if keyseed is None else jr.PRNGKey(keyseed)
        events = []
        real_gb, real_ev = T.get_batches, T.evaluate

        def map_and_loss(m, x, y, aux, ndev=ndev, withmap=withmap):     # per device: x is (B/ndev, c, spatial, tensor)
            first = next(iter(x.values()))
            idx = first.reshape((first.shape[0], -1))[:, 0]
            loss = ndev * jnp.sum(idx) + (0.0 if m.inference else 0.25)
            return (loss, aux, m(x)[0]) if withmap else (loss, aux)

        def get_batches(multi_images, batch_size, rand_key, devices=None):
            res = real_gb(multi_images, batch_size, rand_key, devices)
            obs = []
            for mi_i, blist in enumerate(res):
                for b_i, mi in enumerate(blist):
                    for (k, p), block in mi.items():
                        idx, _ = trainrec._idx_of(block, batch_size)
                        obs.append({"mi": mi_i + 1, "type": [k, p], "batch": b_i + 1, "idx": idx or [-1] * batch_size})
            events.append({"ev": "EvalBatches", "obs": obs})
            return res

        def evaluate(mdl, mal, x, y, aux_data=None, return_map=False):
            bsz = int(np.prod(next(iter(x.values())).shape[:2]))
            xi = [trainrec._idx_of(b, bsz)[0] or [-1] * bsz for b in x.values()]
            yi = [trainrec._idx_of(b, bsz)[0] or [-1] * bsz for b in y.values()]
            res = real_ev(mdl, mal, x, y, aux_data, return_map)
            loss = float(res[0] if return_map else res)
            frac = loss - np.floor(loss)
            events.append({"ev": "EvalStep", "x": xi, "y": yi, "vin": 0 if mdl is model else -1,
                           "inference": bool(abs(frac) < 1e-3), "loss": int(np.floor(loss + 1e-3))})
            return res
        T.get_batches, T.evaluate = get_batches, evaluate
        try:
            fn = T.map_plus_loss_in_batches if withmap else T.map_loss_in_batches
            res = fn(map_and_loss, model, X, Y, B, key, devs[:ndev], None)
            nb = L // B
            tot = float(res[0] if withmap else res) * nb
            ev = {"ev": "EvalReturn", "lossTimesNB": int(round(tot)) if abs(tot - round(tot)) < 1e-2 else -1, "map": []}
            if withmap:
                ev["map"] = [trainrec._idx_of(b, nb * B)[0] or [-1] * (nb * B) if b.shape[0] == nb * B else [-2] for b in res[1].values()]
                ev["map_types"] = [list(k) for k in res[1].keys()]
            events.append(ev)
        except Exception as ex:
            events.append({"ev": "Raised", "what": "%s: %s" % (type(ex).__name__, str(ex)[:200])})
        finally:
            T.get_batches, T.evaluate = real_gb, real_ev
        cfg = dict(kind="eval", monitor="train", patience=0, mindelta=0, epochs=0, L=L, B=B, keyed=key is not None, hasval=False, LV=B,
                   withmap=bool(withmap), start="evalbatching")
        out.append({"tid": tid, "cfg": cfg, "events": events, "ndev": ndev, "withmap": bool(withmap)})
    return out


def main(tier):
    chk = core.Check("C17", tier)
    chk.rule = ("one trace per (L, B, number of co-batched multi-images, key, device count); non-trivial = keyed or B does "
                "not divide L or several devices; distinct by that tuple")
    # ---- design ------------------------------------------------------------------------------------
    loops = [dict(Kind="epochs", Monitor="train", Patience=0, MinDelta=0, Epochs=2, L=L, B=B, HasVal=False, Alphabet={1}, MaxEpoch=2)
             for (L, B) in ([(3, 1), (4, 2), (5, 2), (4, 3)] if tier == "quick" else
                            [(3, 1), (4, 2), (5, 2), (4, 3), (5, 3), (6, 3), (6, 4), (5, 5)])]
    jobs = [dict(module_path="mc/MC_TrainLoop.tla", cfg=tlc.make_cfg(constants=c, invariants=["LoopInv"], constraint="Bound"),
                 constants=c, coverage=True, workers=4, timeout=3000) for c in loops]
    for r in tlc.run_many(jobs, parallel=4):
        chk.add_tlc(r, vacuity_actions=("MakeBatches", "DoTrainStep"))
        if not r.ok:
            chk.spec_violation(r, "training-loop design invariant fails in the specification")
    # ---- recorded get_batches calls ----------------------------------------------------------------
    maxL = 8 if tier == "quick" else 12
    # keys: a defect that shows only for particular drawn permutations (e.g. a slicing shortcut taken when a shuffled batch
    # happens to start and end B-1 apart) shows in a few percent of the epochs, so B >= 3 gets many keys on one device
    nkeys = 3 if tier == "quick" else 8
    nkeys_b3 = 12 if tier == "quick" else 30
    items, tid = [], 0
    rng = random.Random(core.SEED + 17)
    for L in range(1, maxL + 1):
        for B in range(1, L + 1):
            keys = [rng.randint(0, 10 ** 6) for _ in range(nkeys_b3 if B >= 3 else nkeys)]
            for ki, keyseed in enumerate([None] + keys):
                for ndev in [d for d in (1, 2, 3, 4) if B % d == 0]:
                    if ndev > 1 and ki > (1 if tier == "quick" else 4):
                        continue
                    tid += 1
                    items.append((tid, L, B, 1 + tid % 3, keyseed, ndev))
    traces = [t for ch in core.pmap(record_chunk, core.shards(items, 32)) for t in ch]
    verdicts = tracelib.validate(chk, "trace/Trace_TrainLoop.tla",
                                 [{"tid": t["tid"], "cfg": t["cfg"], "events": t["events"]} for t in traces], workers=16)
    for t in traces:
        v = verdicts[t["tid"]]
        chk.evaluations += 1
        chk.traces += 1
        c = t["cfg"]
        if c["keyed"] or c["L"] % c["B"] or t["ndev"] > 1:
            chk.distinct.add(core.chash([c["L"], c["B"], t["n_mi"], c["keyed"], t["ndev"]]))
        ev = t["events"][0]
        if ev["ev"] == "MakeBatches" and ev["n_lists"] != t["n_mi"]:
            chk.report({"what": "get_batches returned %d batch lists for %d multi-images" % (ev["n_lists"], t["n_mi"]), "L": c["L"], "B": c["B"]})
        if v[0] == "REJECT":
            chk.report({"what": "get_batches trace rejected: " + v[2], "L": c["L"], "B": c["B"], "keyed": c["keyed"],
                        "n_mi": t["n_mi"], "ndev": t["ndev"]}, payload={"trace": t})
    chk.samples.append({"cfg": traces[5]["cfg"], "obs": traces[5]["events"][0].get("obs", [])[:4]})
    # ---- the same guards on the batches real ml.train runs draw and consume (EpochStop, scripted loss) ----------
    from harness.checks import c19
    specs = [dict(kind="epochs", monitor="train", patience=0, mindelta=0, epochs=e, hist=[3] * e, fill=3, vhist=[3] * e, vfill=3,
                  extra=1, L=L_, B=B_, hasval=hv, LV=max(B_, 3), focus="batch")
             for (e, L_, B_, hv) in ([(2, 5, 2, False), (2, 6, 3, True)] if tier == "quick" else
                                     [(2, 5, 2, False), (2, 6, 3, True), (3, 7, 2, True), (1, 4, 4, False), (2, 9, 4, False), (3, 3, 1, True)])]
    for sp in reversed(specs):                # one run on several (forced host-platform) devices: a real pmap (B must be divisible)
        nd = 3 if sp["B"] % 3 == 0 else (2 if sp["B"] % 2 == 0 else 1)
        if nd > 1:
            sp["ndev"] = nd
            break
    with core.host_devices(4):
        ttraces = core.pmap(c19.train_run, [(10000 + i, sp, core.SEED + i) for i, sp in enumerate(specs)], procs=6)
    tv = tracelib.validate(chk, "trace/Trace_TrainLoop.tla", [{"tid": t["tid"], "cfg": t["cfg"], "events": t["events"]} for t in ttraces], workers=4)
    for t in ttraces:
        chk.evaluations += 1
        chk.traces += 1
        chk.distinct.add(core.chash(["train", t["spec"]]))
        v = tv[t["tid"]]
        if v[0] == "REJECT":
            ev = t["events"][v[1] - 1]
            chk.report({"what": "ml.train trace rejected: " + v[2], "event_index": v[1], "script": t["spec"],
                        "event": {k: ev[k] for k in ev if k != "obs"}}, payload={"trace": {"cfg": t["cfg"], "events": t["events"], "train": True}})
    # ---- evaluation in batches: design (MC_EvalLoop) and recorded map_loss_in_batches / map_plus_loss_in_batches runs ----
    ejobs = [dict(module_path="mc/MC_EvalLoop.tla", cfg=tlc.make_cfg(constants=c, invariants=["EvalInv"], properties=["Terminates"], specification="Spec"),
                  constants=c, coverage=True, workers=4, timeout=3000)
             for c in ([dict(L=4, B=2, WithMap=True), dict(L=5, B=2, WithMap=False), dict(L=4, B=3, WithMap=True)] if tier == "quick" else
                       [dict(L=4, B=2, WithMap=True), dict(L=5, B=2, WithMap=False), dict(L=4, B=3, WithMap=True), dict(L=6, B=3, WithMap=True), dict(L=6, B=2, WithMap=False)])]
    for r in tlc.run_many(ejobs, parallel=3):
        chk.add_tlc(r, vacuity_actions=("EvalBatches", "DoEvalStep", "EvalReturn"))
        if not r.ok:
            chk.spec_violation(r, "evaluation-in-batches design invariant fails in the specification")
    eitems, etid = [], 20000
    for L in range(1, (7 if tier == "quick" else 11)):
        for B in range(1, L + 1):
            for ndev in [d for d in (1, 2, 4) if B % d == 0]:
                for keyseed in [None, rng.randint(0, 10 ** 6)] + ([rng.randint(0, 10 ** 6)] if tier == "thorough" else []):
                    etid += 1
                    eitems.append((etid, L, B, keyseed, ndev, etid % 2 == 0))
    with core.host_devices(4):
        etraces = [t for ch in core.pmap(eval_chunk, core.shards(eitems, 12), crash_value=[]) for t in ch]
    if len(etraces) < len(eitems) // 2:
        raise RuntimeError("evaluation traces: only %d of %d recorded" % (len(etraces), len(eitems)))
    ev_verdicts = tracelib.validate(chk, "trace/Trace_TrainLoop.tla", [{"tid": t["tid"], "cfg": t["cfg"], "events": t["events"]} for t in etraces], workers=8)
    for t in etraces:
        chk.evaluations += 1
        chk.traces += 1
        c = t["cfg"]
        if c["keyed"] or c["L"] % c["B"] or t["ndev"] > 1:
            chk.distinct.add(core.chash(["eval", c["L"], c["B"], c["keyed"], t["ndev"], t["withmap"]]))
        v = ev_verdicts[t["tid"]]
        if v[0] == "REJECT":
            ev = t["events"][v[1] - 1]
            chk.report({"what": "evaluation trace rejected: " + v[2], "L": c["L"], "B": c["B"], "keyed": c["keyed"], "ndev": t["ndev"],
                        "withmap": t["withmap"], "event": {k: ev[k] for k in ev if k != "obs"}},
                       payload={"trace": {"cfg": t["cfg"], "events": t["events"], "train": True}})
    chk.samples.append({"cfg": etraces[3]["cfg"], "events": [{k: e[k] for k in e if k != "obs"} for e in etraces[3]["events"]]})
    chk.exhaustive = True
    chk.extra["bounds"] = {"L<=": maxL, "keys": nkeys, "keys_B>=3": nkeys_b3, "device_counts": [1, 2, 3, 4]}
    chk.assumptions = ["TLC/SANY/Json trusted", "the sandbox has one CPU device; device counts are exercised through a list of "
                       "n handles to it (get_batches only uses its length)", "keys sampled, (L,B) exhaustive up to the bound"]
    return chk.finish()


def replay(path):
    import json
    pl = json.load(open(path))
    core._pool_init()
    t = pl["trace"]
    c = t["cfg"]
    if t.get("train"):
        chk = core.Check("C17", "quick")
        v = tracelib.validate(chk, "trace/Trace_TrainLoop.tla", [{"tid": 1, "cfg": t["cfg"], "events": t["events"]}], workers=2)[1]
        print("recorded ml.train trace re-validated:", v)
        if v[0] == "REJECT":
            print("VIOLATION property=C17 replay=%s" % path)
        return 1 if v[0] == "REJECT" else 0
    # re-record with the same shape parameters (keys are re-drawn: the property quantifies over all keys)
    fails = 0
    for ks in ([t["keyseed"]] if t.get("keyseed") is not None else []) + [None, 1, 2, 3]:     # the recorded key first, then fresh ones
        if (ks is None) != (not c["keyed"]):
            continue
        tr = record_chunk([(t["tid"], c["L"], c["B"], t["n_mi"], ks, t["ndev"])])[0]
        chk = core.Check("C17", "quick")
        v = tracelib.validate(chk, "trace/Trace_TrainLoop.tla", [{"tid": tr["tid"], "cfg": tr["cfg"], "events": tr["events"]}], workers=2)
        if v[tr["tid"]][0] == "REJECT":
            print("VIOLATION property=C17 replay=%s" % path)
            print("  detail: rejected:", v[tr["tid"]][2])
            fails += 1
    return 1 if fails else 0
