"""C17 -- mini-batching is an aligned partition of the data set.

Spec:  TrainLoop.tla (MakeBatches / BatchGuards), MC_TrainLoop (all epoch orders for small L, B: LoopInv).
Binding (code -> spec, trace validation): ml.get_batches is called on 1..3 co-batched token multi-images with
different type sets, for all (L, B <= L), with and without key, for device counts dividing B (a list of n
device handles: only its length is used).  The recorder reads the sample index back from every returned block
(device axis flattened) and TLC accepts the event iff one duplicate-free order explains every multi-image and
every type, with floor(L/B) batches of B, identity order without key, and the same order as with one device.
Also validated: the MakeBatches events of real ml.train runs (C19's recorder).
"""
import itertools
import random

import numpy as np

from harness import core, tlc, tracelib

TYPESETS = [((0, 0), (1, 0)), ((0, 1),), ((2, 0), (0, 0), (1, 1))]


def record_chunk(chunk):
    import jax
    import jax.numpy as jnp
    import jax.random as jr
    import ginjax.geometric as geom
    import ginjax.ml as ml
    dev = jax.devices()[0]
    out = []
    for tid, L, B, n_mi, keyseed, ndev in chunk:
        D, N = 2, 2
        mis = []
        for ts in TYPESETS[:n_mi]:
            data = {}
            for ci, (k, p) in enumerate(ts):
                shp = (L, 1 + ci) + (N,) * D + (D,) * k
                a = np.broadcast_to(np.arange(L, dtype=np.float32).reshape((L,) + (1,) * (len(shp) - 1)), shp)
                data[(k, p)] = jnp.asarray(np.ascontiguousarray(a))
            mis.append(geom.MultiImage(data, D, True))
        key = None if keyseed is None else jr.PRNGKey(keyseed)

        def observe(devices):
            arg = mis[0] if (n_mi == 1 and tid % 2 == 0) else tuple(mis)     # both accepted call shapes
            res = ml.get_batches(arg, B, key, devices)
            obs = []
            for mi_i, blist in enumerate(res):
                for b_i, mi in enumerate(blist):
                    for (k, p), block in mi.items():
                        a = np.asarray(block)
                        ok_shape = a.shape[:2] == (len(devices), B // len(devices))
                        flat = a.reshape((B, -1))
                        idx = [int(round(float(v))) for v in flat[:, 0]]
                        if not np.all(flat == flat[:, :1]) or not ok_shape:
                            idx = [-1] * B
                        obs.append({"mi": mi_i + 1, "type": [k, p], "batch": b_i + 1, "idx": idx})
            return obs, len(res)
        try:
            obs, n_lists = observe([dev] * ndev)
            ev = {"ev": "MakeBatches", "obs": obs, "n_lists": n_lists}
            if ndev > 1:
                ev["ref"] = [o for o in observe([dev])[0] if o["mi"] == 1 and o["type"] == list(TYPESETS[0][0])]
            events = [ev]
        except Exception as ex:
            events = [{"ev": "Raised", "what": "%s: %s" % (type(ex).__name__, str(ex)[:200])}]
        cfg = dict(kind="epochs", monitor="train", patience=0, mindelta=0, epochs=1, L=L, B=B, keyed=key is not None,
                   hasval=False, LV=B, start="batching")
        out.append({"tid": tid, "cfg": cfg, "events": events, "n_mi": n_mi, "ndev": ndev})
    return out


def main(tier):
    chk = core.Check("C17", tier)
    chk.rule = ("one trace per (L, B, number of co-batched multi-images, key, device count); non-trivial = keyed or B does "
                "not divide L or several devices; distinct by that tuple")
    # ---- design ------------------------------------------------------------------------------------
    loops = [dict(Kind="epochs", Monitor="train", Patience=0, MinDelta=0, Epochs=2, L=L, B=B, HasVal=False, Alphabet={1}, MaxEpoch=2)
             for (L, B) in ([(3, 1), (4, 2), (5, 2), (4, 3)] if tier == "quick" else
                            [(3, 1), (4, 2), (5, 2), (4, 3), (5, 3), (6, 3), (6, 4), (5, 5)])]
    jobs = [dict(module_path="mc/MC_TrainLoop.tla", cfg=tlc.make_cfg(constants=c, invariants=["LoopInv"], constraint="Bound"),
                 constants=c, coverage=True, workers=4, timeout=3000) for c in loops]
    for r in tlc.run_many(jobs, parallel=4):
        chk.add_tlc(r, vacuity_actions=("MakeBatches", "DoTrainStep"))
        if not r.ok:
            chk.spec_violation(r, "training-loop design invariant fails in the specification")
    # ---- recorded get_batches calls ----------------------------------------------------------------
    maxL = 8 if tier == "quick" else 12
    nkeys = 3 if tier == "quick" else 8
    items, tid = [], 0
    rng = random.Random(core.SEED + 17)
    for L in range(1, maxL + 1):
        for B in range(1, L + 1):
            for keyseed in [None] + [rng.randint(0, 10 ** 6) for _ in range(nkeys)]:
                for ndev in [d for d in (1, 2, 3, 4) if B % d == 0]:
                    if ndev > 1 and keyseed is not None and tier == "quick" and rng.random() < 0.5:
                        continue
                    tid += 1
                    items.append((tid, L, B, 1 + tid % 3, keyseed, ndev))
    traces = [t for ch in core.pmap(record_chunk, core.shards(items, 32)) for t in ch]
    verdicts = tracelib.validate(chk, "trace/Trace_TrainLoop.tla",
                                 [{"tid": t["tid"], "cfg": t["cfg"], "events": t["events"]} for t in traces], workers=16)
    for t in traces:
        v = verdicts[t["tid"]]
        chk.evaluations += 1
        chk.traces += 1
        c = t["cfg"]
        if c["keyed"] or c["L"] % c["B"] or t["ndev"] > 1:
            chk.distinct.add(core.chash([c["L"], c["B"], t["n_mi"], c["keyed"], t["ndev"]]))
        ev = t["events"][0]
        if ev["ev"] == "MakeBatches" and ev["n_lists"] != t["n_mi"]:
            chk.report({"what": "get_batches returned %d batch lists for %d multi-images" % (ev["n_lists"], t["n_mi"]), "L": c["L"], "B": c["B"]})
        if v[0] == "REJECT":
            chk.report({"what": "get_batches trace rejected: " + v[2], "L": c["L"], "B": c["B"], "keyed": c["keyed"],
                        "n_mi": t["n_mi"], "ndev": t["ndev"]}, payload={"trace": t})
    chk.samples.append({"cfg": traces[5]["cfg"], "obs": traces[5]["events"][0].get("obs", [])[:4]})
    # ---- the same guards on the batches real ml.train runs draw and consume (EpochStop, scripted loss) ----------
    from harness.checks import c19
    specs = [dict(kind="epochs", monitor="train", patience=0, mindelta=0, epochs=e, hist=[3] * e, fill=3, vhist=[3] * e, vfill=3,
                  extra=1, L=L_, B=B_, hasval=hv, LV=max(B_, 3), focus="batch")
             for (e, L_, B_, hv) in ([(2, 5, 2, False), (2, 6, 3, True)] if tier == "quick" else
                                     [(2, 5, 2, False), (2, 6, 3, True), (3, 7, 2, True), (1, 4, 4, False), (2, 9, 4, False), (3, 3, 1, True)])]
    ttraces = core.pmap(c19.train_run, [(10000 + i, sp, core.SEED + i) for i, sp in enumerate(specs)], procs=6)
    tv = tracelib.validate(chk, "trace/Trace_TrainLoop.tla", [{"tid": t["tid"], "cfg": t["cfg"], "events": t["events"]} for t in ttraces], workers=4)
    for t in ttraces:
        chk.evaluations += 1
        chk.traces += 1
        chk.distinct.add(core.chash(["train", t["spec"]]))
        v = tv[t["tid"]]
        if v[0] == "REJECT":
            ev = t["events"][v[1] - 1]
            chk.report({"what": "ml.train trace rejected: " + v[2], "event_index": v[1], "script": t["spec"],
                        "event": {k: ev[k] for k in ev if k != "obs"}}, payload={"trace": {"cfg": t["cfg"], "events": t["events"], "train": True}})
    chk.exhaustive = True
    chk.extra["bounds"] = {"L<=": maxL, "keys": nkeys, "device_counts": [1, 2, 3, 4]}
    chk.assumptions = ["TLC/SANY/Json trusted", "the sandbox has one CPU device; device counts are exercised through a list of "
                       "n handles to it (get_batches only uses its length)", "keys sampled, (L,B) exhaustive up to the bound"]
    return chk.finish()


def replay(path):
    import json
    pl = json.load(open(path))
    core._pool_init()
    t = pl["trace"]
    c = t["cfg"]
    if t.get("train"):
        chk = core.Check("C17", "quick")
        v = tracelib.validate(chk, "trace/Trace_TrainLoop.tla", [{"tid": 1, "cfg": t["cfg"], "events": t["events"]}], workers=2)[1]
        print("recorded ml.train trace re-validated:", v)
        if v[0] == "REJECT":
            print("VIOLATION property=C17 replay=%s" % path)
        return 1 if v[0] == "REJECT" else 0
    # re-record with the same shape parameters (keys are re-drawn: the property quantifies over all keys)
    fails = 0
    for ks in (None, 1, 2, 3):
        if (ks is None) != (not c["keyed"]):
            continue
        tr = record_chunk([(t["tid"], c["L"], c["B"], t["n_mi"], ks, t["ndev"])])[0]
        chk = core.Check("C17", "quick")
        v = tracelib.validate(chk, "trace/Trace_TrainLoop.tla", [{"tid": tr["tid"], "cfg": tr["cfg"], "events": tr["events"]}], workers=2)
        if v[tr["tid"]][0] == "REJECT":
            print("VIOLATION property=C17 replay=%s" % path)
            print("  detail: rejected:", v[tr["tid"]][2])
            fails += 1
    return 1 if fails else 0
