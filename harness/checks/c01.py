"""C01 -- convolution commutes with the symmetry group (rotations, reflections, shifts).

MC:   MC_Convolution on the unit-stride lattice x every g in B_2 (d=3: the three generators, closure
      checked by TLC): Covariant(g,c) (tap table covariance incl. even filters, mixed torus flags travelling
      with their axes, both dilations), Translates.  Gen_ConvValue: value-level (g.A)*(g.C) = g.(A*C) in the spec.
GEN:  tap tables of a seeded sub-sample -> geom.convolve (binds the code to the covariant table).
Code: (g.A)*(g.C) vs g.(A*C) exactly on random integer images of all (k,p)x(k',p') through geom.convolve and
      GeometricImage.convolve_with (declared k+k', p+p'); cyclic translations on toroidal axes.
"""
import random

from harness import core
from harness.checks import convchecks as cc


def lattices(tier, seed):
    P2 = cc.set_product
    # deep wrap: the dilated half-width of the filter exceeds the extent of a toroidal axis (several wraps)
    deep = dict(D=2, Ns={(2, 2), (2, 3), (3, 2), (1, 3)}, Ms={(3, 3), (5, 5), (3, 5)}, Modes={"TORUS"}, Pads={((1, 1), (1, 1))},
                StrideSet={(1, 1)}, RdilSet={(1, 1), (3, 3), (4, 2)}, LdilSet={(1, 1)}, GroupMode="all", SampleMod=2, Seed=seed % 2)
    if tier == "quick":
        return [deep,
            dict(D=2, Ns=P2([1, 2, 3], 2), Ms=P2([1, 2, 3], 2), Modes={"TORUS", "SAME", "VALID", "EXPL"},
                 Pads={((1, 1), (1, 1)), ((2, 2), (1, 1))}, StrideSet={(1, 1)},
                 RdilSet={(1, 1), (2, 1), (2, 2)}, LdilSet={(1, 1), (1, 2), (2, 2)},
                 GroupMode="all", SampleMod=17, Seed=seed % 17),
            dict(D=3, Ns={(2, 2, 2), (1, 2, 3)}, Ms={(1, 1, 1), (3, 3, 3), (2, 2, 2), (1, 3, 2)},
                 Modes={"TORUS", "SAME", "VALID", "EXPL"}, Pads={((1, 1), (1, 1), (1, 1)), ((2, 2), (0, 0), (1, 1))},
                 StrideSet={(1, 1, 1)}, RdilSet={(1, 1, 1), (2, 1, 1)}, LdilSet={(1, 1, 1), (1, 2, 1)},
                 GroupMode="gens", SampleMod=5, Seed=seed % 5),
        ]
    return [
        deep,
        # (the full product 5^2 x 4^2 x 3^2 x 3^2 of extents and dilations is 2.6e6 (cell, g) states at ~150/s: ~5 h; this
        #  sub-lattice keeps every value of every axis and all pairwise interactions of the small values: ~3.6e5 states)
        dict(D=2, Ns=P2([1, 2, 3, 4], 2) | {(5, 5), (5, 2), (2, 5)}, Ms=P2([1, 2, 3], 2) | {(4, 4), (4, 1), (1, 4), (4, 3)},
             Modes={"TORUS", "SAME", "VALID", "EXPL"},
             Pads={((1, 1), (1, 1)), ((2, 2), (1, 1)), ((3, 3), (0, 0))}, StrideSet={(1, 1)},
             RdilSet={(1, 1), (2, 1), (1, 2), (2, 2), (3, 1), (3, 3)}, LdilSet={(1, 1), (1, 2), (2, 2)},
             GroupMode="all", SampleMod=307, Seed=seed % 307),
        dict(D=3, Ns=P2([1, 2, 3], 3), Ms={(1, 1, 1), (3, 3, 3), (2, 2, 2), (1, 3, 2), (3, 1, 3)},
             Modes={"TORUS", "SAME", "VALID", "EXPL"}, Pads={((1, 1), (1, 1), (1, 1)), ((2, 2), (0, 0), (1, 1))},
             StrideSet={(1, 1, 1)}, RdilSet={(1, 1, 1), (2, 1, 1), (2, 2, 2)}, LdilSet={(1, 1, 1), (1, 2, 1), (2, 2, 2)},
             GroupMode="gens", SampleMod=41, Seed=seed % 41),
    ]


def main(tier):
    chk = core.Check("C01", tier)
    chk.rule = ("MC: every (cell, g) of the unit-stride lattice; replayed tables = seeded sub-sample of the cells; "
                "code-level cases = random (cfg, g, (k,p), (k',p')); non-trivial = g is not the identity; distinct by "
                "(cfg, g, types)")
    lat = lattices(tier, core.SEED)
    tables = cc.run_lattices(chk, lat, parallel=2, workers=8, coverage=(tier == "quick"))
    chk.extra["lattices"] = [{k: (sorted(v) if isinstance(v, set) else v) for k, v in c.items()} for c in lat]
    chk.exhaustive = True
    cc.replay_tables(chk, tables)
    rng = random.Random(core.SEED + 1)
    cases = cc.make_value_cases(rng, 120 if tier == "quick" else 1200, with_g=True, symmetric_unit=True)
    exp = cc.run_value_gen(chk, cases)                 # EquivLaw checked by TLC at value level; values bound below
    cc.replay_values(chk, cases, exp)
    cc.check_equivariance_on_code(chk, cases)
    more = cc.make_value_cases(rng, 200 if tier == "quick" else 3000, with_g=True, symmetric_unit=True)
    cc.check_equivariance_on_code(chk, more)
    for c in cases + more:
        ident = c["g"]["p"] == sorted(c["g"]["p"]) and set(c["g"]["s"]) == {1}
        if not ident:
            chk.distinct.add(core.chash([c["cfg"], c["g"], c["A"][0][0]["k"], c["F"][0][0]["k"]]))
    chk.assumptions = ["TLC/SANY/Json trusted", "float32 exact on the small integers used",
                       "d=3 covariance is model-checked for three generators of B_3 (closure = B_3 checked by TLC); the "
                       "lattice is closed under axis transport and Act is a group action (C02), so all 48 follow",
                       "the code's group action is the one C02 binds to the spec"]
    return chk.finish()


def replay(path):
    import json
    pl = json.load(open(path))
    core._pool_init()
    if "case" in pl and "g" in pl["case"]:
        fails = []
        for i in range(13):
            f, _ = cc._equiv_chunk([(i, pl["case"])])
            fails += f
    else:
        from harness.checks import c04
        return c04.replay(path)
    for f in fails[:5]:
        print("VIOLATION property=C01 replay=%s" % path)
        print("  detail:", core.canon(f["key"])[:400])
    return 1 if fails else 0
