"""C14 -- no cross-talk between batch entries, channels or tensor types.

Spec:  MultiImage.tla defines every per-image multi-image operation (group action, pixel norm, average pooling,
       component selection, conversion to images) as the single-image operation (GeomImage.tla) applied to every
       leading entry -- that IS the property; machine MultiImageStore.tla enumerates the layouts.
MC/GEN: behaviours New ; op ; op over 0-3 leading axes of pairwise distinct sizes (also distinct from D and the
       extents), several types, d in {1,2,3}, every group element, small signed integer values.
Replay: exact comparison of the real MultiImage methods with the spec state after every step.
vmap:  for layers and models (equivariant and conventional, with group norm): jax.vmap(model)(batch)[i] equals
       model(batch[i]); replacing / permuting the OTHER entries of the batch leaves entry i's output unchanged.
"""
import numpy as np

from harness import core, storereplay, tlc

MODULE = "MultiImageStore.tla"
OPS = {"New", "Act", "NormSq", "AvgPool", "Component", "ImagesRT", "Expand"}


def instances(tier):
    base = dict(Names={"a"}, Ops=OPS, ValMode="small", LossGroup=set(), EmitOps=set(), TerminalOps=set(), MaxDepth=3, EmitDepth=3)
    out = [
        dict(base, D=2, Dims=(2, 4), Torus=(True, False), TypeList=(((0, 0), (3,)), ((1, 0), (6,)), ((2, 1), (3,))), Orders={(1, 2, 3), (3, 1)}),
        dict(base, D=2, Dims=(4, 2), Torus=(False, True), TypeList=(((0, 1), (3, 5)), ((1, 1), (3, 1))), Orders={(2, 1)}),
        dict(base, D=2, Dims=(2, 2), Torus=(True, True), TypeList=(((1, 0), ()),), Orders={(1,)}),
        dict(base, D=1, Dims=(4,), Torus=(True,), TypeList=(((0, 0), (3, 2)), ((0, 1), (3, 5))), Orders={(1, 2), (2,)}),
        dict(base, D=3, Dims=(2, 2, 4), Torus=(True, False, True), TypeList=(((1, 0), (5,)), ((0, 1), (7,))), Orders={(1, 2)}, MaxDepth=2, EmitDepth=2),
    ]
    if tier == "thorough":
        out += [
            dict(base, D=2, Dims=(2, 6), Torus=(True, False), TypeList=(((0, 0), (3, 5, 7)), ((1, 0), (3, 5, 1))), Orders={(1, 2), (2, 1)}),
            dict(base, D=3, Dims=(2, 4, 2), Torus=(False, False, True), TypeList=(((1, 1), (3, 5)), ((2, 0), (3, 1)), ((0, 0), (3, 7))), Orders={(2, 3, 1)}, MaxDepth=2, EmitDepth=2),
            dict(base, D=2, Dims=(6, 3), Torus=(True, True), TypeList=(((3, 0), (5,)), ((0, 0), (7,))), Orders={(1, 2)}, MaxDepth=2, EmitDepth=2),
        ]
    return out


# ------------------------------------------------------------------------------------------------
# vmap / replacement invariance of layers and models

MODEL_KINDS = ["ConvContract", "LayerNorm", "VN", "MaxNormPool", "ConvBlockGN", "ResNet", "ResNetPlainGN", "UNet", "UNetPlain", "DilResNetPlain"]


def vmap_case(args):
    """storage: "sorted" -- the batch holds its types in sorted (k, parity) order; "unsorted" -- the vector block is stored before
    the scalar block (vmap / jit rebuild a multi-image from its pytree with sorted keys, the single-entry call keeps the order)"""
    idx, kind, seed = args[:3]
    storage = args[3] if len(args) > 3 else "sorted"
    mode = "conventional" if "Plain" in kind else "equivariant"
    import jax
    import jax.numpy as jnp
    import jax.random as jr
    import ginjax.geometric as geom
    import ginjax.ml as ml
    import ginjax.models as models
    D, N, B = 2, 4, 3
    ops = geom.make_all_operators(D)
    filt = geom.get_invariant_filters([3], [0, 1, 2], [0, 1], D, ops)
    in_k = geom.Signature((((0, 0), 2), ((1, 0), 2)))
    out_k = geom.Signature((((1, 0), 1), ((0, 0), 2)))
    key = jr.PRNGKey(seed)
    plain = lambda m: (lambda x: m(x)[0])
    if kind == "ConvContract":
        m = ml.ConvContract(in_k, out_k, filt, use_bias="auto", key=key)
        f = m
    elif kind == "LayerNorm":
        f = ml.LayerNorm(in_k, D)
    elif kind == "VN":
        f = ml.VectorNeuronNonlinear(in_k, D, jax.nn.gelu, key=key)
    elif kind == "MaxNormPool":
        f = ml.MaxNormPool(2)
    elif kind == "ConvBlockGN":
        f = plain(models.ConvBlock(D, in_k, out_k, conv_filters=filt, use_group_norm=True, key=key))
    elif kind == "ResNet":
        f = plain(models.ResNet(D, in_k, out_k, depth=2, num_blocks=1, num_conv=2, conv_filters=filt, key=key))
    elif kind == "ResNetPlainGN":
        f = plain(models.ResNet(D, in_k, out_k, depth=4, num_blocks=1, num_conv=2, equivariant=False, kernel_size=3, use_group_norm=True, key=key))
    elif kind == "UNet":
        up = geom.get_invariant_filters([2], [0, 1, 2], [0, 1], D, ops)
        f = plain(models.UNet(D, in_k, out_k, depth=2, num_downsamples=1, num_conv=1, conv_filters=filt, upsample_filters=up, use_group_norm=True, key=key))
    elif kind == "UNetPlain":
        f = plain(models.UNet(D, in_k, out_k, depth=2, num_downsamples=1, num_conv=1, equivariant=False, kernel_size=3, use_group_norm=True, key=key))
    elif kind == "DilResNetPlain":
        f = plain(models.DilResNet(D, in_k, out_k, depth=2, num_blocks=1, equivariant=False, kernel_size=3, use_group_norm=True, key=key))
    else:
        raise RuntimeError(kind)
    k1, k2, k3, k4 = jr.split(jr.PRNGKey(seed + 99), 4)
    def mk(ka, kb, scale=1.0):
        blocks = [((0, 0), scale * jr.normal(ka, (B, 2, N, N))), ((1, 0), scale * jr.normal(kb, (B, 2, N, N, D)))]
        return geom.MultiImage(dict(blocks if storage == "sorted" else blocks[::-1]), D, True)
    xb = mk(k1, k2)
    fails = []
    try:
        yb = jax.vmap(f)(xb)
        tol = 1e-5
        for i in range(B):
            yi = f(xb.get_one(i, keepdims=False))
            for t in yi.keys():
                a, b = np.asarray(yb[t][i]), np.asarray(yi[t])
                den = max(1e-6, float(np.abs(b).max()))
                if a.shape != b.shape or float(np.abs(a - b).max()) / den > tol:
                    fails.append({"key": {"what": "vmap(model)(batch)[i] differs from model(batch[i])", "model": kind, "type": list(t), "entry": i,
                                          "storage": storage, "mode": mode, "defect": float(np.abs(a - b).max()) / den}})
        # replacement invariance: replace / permute the other entries, entry 0's output must not move
        other = mk(k3, k4, scale=7.0)
        xr = geom.MultiImage({t: jnp.concatenate([xb[t][:1], other[t][1:][::-1]]) for t in xb.keys()}, D, True)
        yr = jax.vmap(f)(xr)
        for t in yb.keys():
            a, b = np.asarray(yb[t][0]), np.asarray(yr[t][0])
            den = max(1e-6, float(np.abs(a).max()))
            if float(np.abs(a - b).max()) / den > 1e-6:
                fails.append({"key": {"what": "output of a batch entry changes when the other entries are replaced", "model": kind, "type": list(t),
                                      "storage": storage, "mode": mode, "defect": float(np.abs(a - b).max()) / den}})
    except Exception as ex:
        fails.append({"key": {"what": "raised %s: %s" % (type(ex).__name__, str(ex)[:200]), "model": kind, "storage": storage, "mode": mode}})
    return fails


def main(tier):
    chk = core.Check("C14", tier)
    chk.rule = ("behaviours = New ; op ; op chains of per-image operations on the store; non-trivial = at least one leading "
                "axis longer than 1; distinct by the whole chain;  plus one vmap / replacement case per layer or model kind")
    insts = instances(tier)
    jobs = [dict(module_path=MODULE, cfg=tlc.make_cfg(constants=c, invariants=["Emit"], constraint="InOrder"),
                 constants=c, coverage=False, workers=6, timeout=6000) for c in insts]
    behaviours = []
    for r in tlc.run_many(jobs, parallel=3):
        chk.add_tlc(r, vacuity_actions=("New", "ActOp"))
        behaviours += [c["hist"] for c in r.cases]
    chk.exhaustive = True
    core.require_ops(behaviours, ["Act", "NormSq", "AvgPool", "Component", "ImagesRT", "Expand"])
    for fails, n in core.pmap(storereplay.replay_chunk, core.shards(behaviours, 64)):
        chk.evaluations += n
        chk.traces += n
        for f in fails:
            chk.report(f["key"], payload=f)
    for h in behaviours:
        if any(max(l + [1]) > 1 for l in h[0]["after"]["leads"]):
            chk.distinct.add(core.chash(h))
    chk.samples = [{"ops": [dict((k, v) for k, v in s.items() if k not in ("after", "img1")) for s in h],
                    "leads": h[0]["after"]["leads"], "final_leads": h[-1]["after"]["leads"]} for h in behaviours[200:202]]
    kinds = MODEL_KINDS if tier == "thorough" else MODEL_KINDS[:7]
    reps = 1 if tier == "quick" else 3
    vjobs = [(i, k, core.SEED + 17 * i + r, "sorted") for r in range(reps) for i, k in enumerate(kinds)]
    # the same batch with its vector block stored before its scalar block: every kind once (quick: one conventional and four
    # equivariant kinds) -- see known_findings.json for what the conventional models do with it
    ukinds = kinds if tier == "thorough" else ["ConvContract", "VN", "ConvBlockGN", "ResNet", "ResNetPlainGN"]
    vjobs += [(100 + i, k, core.SEED + 31 * i, "unsorted") for i, k in enumerate(ukinds)]
    for fails in core.pmap(vmap_case, vjobs, procs=12, crash_value=[]):
        chk.evaluations += 1
        for f in fails:
            chk.report(f["key"], payload=f)
    chk.extra["vmap_models"] = kinds
    chk.extra["note"] = "the vmap/replacement part is numerical exploration (tolerance 1e-5 / 1e-6 relative)"
    chk.assumptions = ["TLC/SANY/Json trusted", "float32 exact on the small integers used; pixel norms compared after squaring to 1e-6",
                       "with no leading axis the library's append() admits one type per multi-image: single-type there"]
    return chk.finish()


def replay(path):
    import json
    pl = json.load(open(path))
    core._pool_init()
    if "hist" not in pl:
        k = pl["key"]["model"]
        fails = vmap_case((0, k, core.SEED, pl["key"].get("storage", "sorted")))
    else:
        fails, _ = storereplay.replay_chunk([pl["hist"]])
    for f in fails:
        print("VIOLATION property=C14 replay=%s" % path)
        print("  detail:", core.canon(f["key"])[:500])
    return 1 if fails else 0
