"""C10 -- symmetrisation wrappers make any inner model equivariant.

Spec:  Wrappers.tla -- GroupAvgNum (numerator of the group average of an arbitrary inner model), the inner-model family
       InnerModel (non-equivariant, nonlinear, channel-mixing, position-dependent integer maps), the latitude-band re-layout
       To1d / From1d and the equator symmetrisation ClimateNum.
MC:    MC_Wrappers: for every (operator list, signature incl. pseudo-types, extents, inner model): Closed(G) => the average commutes
       with EVERY h in G (non-closed lists are negative controls: reported, and at least one must break); for every (band signature
       in every storage order, (lon,lat), steps, constants): From1d o To1d = id, longitude flip |-> 1-D flip, symmetrised model
       commutes with the equator reflection.
Replay: models.GroupAverage around the Python twin of the inner model (always_average / inference / off) equals numerator/|G|
       (bit-exact for |G| in {1,2,4,8}, 4 ulp otherwise); models.Climate1D.to1d / from1d / get_1d_signature / __call__ on the same
       integer data equal the spec's To1d / identity / ClimateNum/2 exactly.
"""
import numpy as np

from harness import core, storereplay, tlc

MODULE = "mc/MC_Wrappers.tla"
S, PS, V, PV, T2 = (0, 0), (0, 1), (1, 0), (1, 1), (2, 0)


def instances(tier):
    clim = dict(ClimSigs={((S, 1), (PS, 1), (V, 2)), ((V, 1),), ((S, 2),), ((V, 1), (S, 1)), ((PS, 2), (V, 1)), ((S, 1), (V, 1)), ((S, 3), (V, 1))},
                ClimDims={(2, 3), (4, 2)}, ClimTs={1, 2, 3}, ClimConsts={(), ((S, 1),), ((PS, 2),)})
    out = [dict(D=2, GroupNames={"B", "ROT", "FLIP", "TRIV", "FLIPX", "OPEN2", "OPEN3"}, AvgSigs={((S, 2), (V, 1)), ((PS, 1), (PV, 2)), ((T2, 1),)},
                AvgDims={(2, 3), (2, 2)}, ModelIds={1, 2}, **clim),
           dict(D=3, GroupNames={"FLIP", "C3", "TRIV"} if tier == "quick" else {"B", "ROT", "FLIP", "C3", "TRIV", "FLIPX"},
                AvgSigs={((S, 1), (V, 1)), ((PV, 1),)}, AvgDims={(1, 2, 3)} if tier == "quick" else {(1, 2, 3), (2, 2, 2)}, ModelIds={1},
                ClimSigs={((S, 1),)}, ClimDims={(2, 2)}, ClimTs={1}, ClimConsts={()})]
    if tier == "thorough":
        out[0]["ClimTs"] = {1, 2, 3}
        out[0]["ClimDims"] = {(2, 3), (4, 2), (3, 3), (1, 4)}
        out[0]["AvgDims"] = {(2, 3), (2, 2), (3, 1)}
        out[0]["ModelIds"] = {1, 2, 3}
    return out


def make_twin(mid, geom, jnp):
    """line-for-line twin of Wrappers!InnerModel"""
    def model(x, aux=None):
        types = sorted(x.keys())
        gl = 0
        for i, t in enumerate(types, 1):
            v = np.rint(np.asarray(x[t])).astype(np.int64).ravel()
            n = np.arange(1, v.size + 1)
            gl += int((((n % 3) + i) * v).sum())
        gl = gl % 5
        out = {}
        for t, blk in x.items():
            a = np.rint(np.asarray(blk)).astype(np.int64)
            C = a.shape[0]
            flat = a.reshape(C, -1)
            sz = flat.shape[1]
            e = np.arange(sz)
            nxt = flat[(np.arange(C) + 1) % C]
            res = flat * flat + ((e % 3) + 1)[None, :] * nxt + mid * (e + 1)[None, :] + gl - 7
            out[t] = jnp.asarray(res.reshape(a.shape).astype(np.float32))
        return geom.MultiImage(out, x.D, x.is_torus), aux
    return model


def replay_chunk(chunk):
    import equinox as eqx
    import jax.numpy as jnp
    import ginjax.geometric as geom
    import ginjax.ml  # noqa: F401
    import ginjax.models as models
    fails = []
    for c in chunk:
        try:
            if c["kind"] == "avg":
                key = {"kind": "avg", "group": c["group"], "sig": c["x"]["order"], "dims": c["x"]["dims"], "mid": c["mid"]}
                x = storereplay.build(c["x"], geom, jnp, "New")
                twin = make_twin(c["mid"], geom, jnp)
                d = storereplay.diff(c["inner"], twin(x)[0])
                if d:
                    raise RuntimeError("inner-model twin disagrees with Wrappers!InnerModel: " + d)
                ops = [np.array(m) for m in c["ops"]]
                den = c["den"]
                exact = (den & (den - 1)) == 0
                for flags in ((True, False), (False, True)):
                    ga = models.GroupAverage(twin, ops, always_average=flags[0], inference=flags[1])
                    out, _ = ga(x)
                    scaled = geom.MultiImage({t: v * float(den) for t, v in out.items()}, out.D, out.is_torus)
                    d = storereplay.diff(c["num"], scaled, approx=not exact)
                    if d:
                        fails.append({"key": dict(key, what="GroupAverage differs from (1/|G|) sum_g g^-1 f(g x)", detail=d, flags=list(flags)), "case": c})
                off, _ = models.GroupAverage(twin, ops, always_average=False, inference=False)(x)
                d = storereplay.diff(c["inner"], off)
                if d:
                    fails.append({"key": dict(key, what="GroupAverage with averaging off differs from the inner model", detail=d), "case": c})
            else:
                key = {"kind": "clim", "sig": c["sig"], "dims": c["x"]["dims"], "T": c["T"], "consts": c["consts"], "mid": c["mid"]}
                T = c["T"]
                x = storereplay.build(c["x"], geom, jnp, "New")
                cdict = {(t[0], t[1]): n for t, n in c["consts"]}
                sig_full = tuple(((t[0], t[1]), l[0]) for t, l in zip(c["x"]["order"], c["x"]["leads"]))
                twin = make_twin(c["mid"], geom, jnp)
                cl = models.Climate1D(twin, geom.Signature(sig_full), T, T, tuple(c["x"]["dims"]), cdict, (True, False))
                y = cl.to1d(x)
                d = storereplay.diff(c["to1d"], y)
                if d:
                    fails.append({"key": dict(key, what="Climate1D.to1d differs from the band re-layout", detail=d), "case": c})
                s1 = {tuple(t): n for t, n in models.Climate1D.get_1d_signature(sig_full, c["x"]["dims"][1])}
                want1 = {tuple(t): l[0] for t, l in zip(c["to1d"]["order"], c["to1d"]["leads"])}
                if s1 != want1:
                    fails.append({"key": dict(key, what="Climate1D.get_1d_signature differs from the signature of to1d(x)", expected=str(want1), observed=str(s1)), "case": c})
                if c["canon"]:
                    xd = storereplay.build(c["xdyn"], geom, jnp, "New")
                    sig_d = tuple(((t[0], t[1]), l[0]) for t, l in zip(c["xdyn"]["order"], c["xdyn"]["leads"]))
                    cd = models.Climate1D(twin, geom.Signature(sig_d), T, T, tuple(c["xdyn"]["dims"]), {}, (True, False))
                    back = cd.from1d(cd.to1d(xd))
                    d = storereplay.diff(c["xdyn"], back)
                    if d:
                        fails.append({"key": dict(key, what="from1d(to1d(x)) != x", detail=d), "case": c})
                    out, _ = cd(xd)
                    scaled = geom.MultiImage({t: v * 2.0 for t, v in out.items()}, out.D, out.is_torus)
                    d = storereplay.diff(c["num"], scaled)
                    if d:
                        fails.append({"key": dict(key, what="Climate1D.__call__ differs from (f(x) + F f(F x)) / 2", detail=d), "case": c})
                    if c["consts"]:
                        # with constant fields: the inner 1-D model reads the constant rows and returns the dynamic rows only
                        rows = {tuple(t): r for t, r in zip(c["to1d"]["order"], c["rowsd"])}

                        def twin_c(y, aux=None, rows=rows):
                            z, _ = twin(y)
                            return geom.MultiImage({t: v[: rows[t]] for t, v in z.items()}, z.D, z.is_torus), aux
                        cc = models.Climate1D(twin_c, geom.Signature(sig_d), T, T, tuple(c["x"]["dims"]), cdict, (True, False))
                        outc, _ = cc(x)
                        scaledc = geom.MultiImage({t: v * 2.0 for t, v in outc.items()}, outc.D, outc.is_torus)
                        d = storereplay.diff(c["numc"], scaledc)
                        if d:
                            fails.append({"key": dict(key, what="Climate1D.__call__ with constant fields differs from (f(x) + F f(F x)) / 2", detail=d), "case": c})
        except RuntimeError:
            raise
        except Exception as ex:
            fails.append({"key": dict(key, what="raised %s: %s" % (type(ex).__name__, str(ex)[:200])), "case": c})
    return fails, len(chunk)


def main(tier):
    chk = core.Check("C10", tier)
    chk.rule = ("one case per state of MC_Wrappers: (operator list, signature, extents, inner model) and (band signature/order, extents, "
                "steps, constants, inner model); non-trivial = group of order > 1 / a vector type or constants present; distinct by case")
    insts = instances(tier)
    jobs = [dict(module_path=MODULE, cfg=tlc.make_cfg(constants=c, invariants=["Laws", "Emit"]), constants=c, coverage=False, workers=8, timeout=6000)
            for c in insts]
    cases = []
    for r in tlc.run_many(jobs, parallel=2):
        chk.add_tlc(r)
        if not r.ok:
            chk.spec_violation(r, "wrapper laws fail in the specification itself")
        cases += r.cases
    chk.exhaustive = True
    avg = [c for c in cases if c["kind"] == "avg"]
    clim = [c for c in cases if c["kind"] == "clim"]
    if not avg or not clim or not any(c["closed"] and c["den"] >= 8 for c in avg):
        raise RuntimeError("vacuity: missing case families")
    if not any((not c["closed"]) and (not c["commutes"]) for c in avg):
        raise RuntimeError("vacuity: no non-closed operator list breaks the law in the specification (negative control)")
    for fails, n in core.pmap(replay_chunk, core.shards(cases, 32)):
        chk.evaluations += n
        chk.traces += n
        for f in fails:
            chk.report(f["key"], payload=f)
    for c in cases:
        if (c["kind"] == "avg" and c["den"] > 1) or (c["kind"] == "clim" and (c["consts"] or any(t == [1, 0] for t in c["x"]["order"]))):
            chk.distinct.add(core.chash([c["kind"], c.get("group"), c["x"]["order"], c["x"]["dims"], c["mid"], c.get("T"), c.get("consts")]))
    a0 = avg[len(avg) // 2]
    chk.samples = [{"kind": "avg", "group": a0["group"], "order": a0["den"], "closed": a0["closed"], "x": a0["x"]["vals"], "numerator": a0["num"]["vals"]},
                   {"kind": "clim", "sig": clim[0]["sig"], "T": clim[0]["T"], "to1d_leads": clim[0]["to1d"]["leads"]}]
    chk.extra["negative_controls"] = sorted({c["group"] for c in avg if not c["closed"]})
    chk.assumptions = ["TLC/SANY/Json trusted", "inner-model twin checked against the spec on every case (disagreement = machinery failure)",
                       "|G| in {1,2,4,8}: exact; other orders 1e-6 relative"]
    return chk.finish()


def replay(path):
    import json
    pl = json.load(open(path))
    core._pool_init()
    fails, _ = replay_chunk([pl["case"]])
    for f in fails:
        print("VIOLATION property=C10 replay=%s" % path)
        print("  detail:", core.canon(f["key"])[:500])
    return 1 if fails else 0
