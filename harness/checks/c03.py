"""C03 -- generated invariant filters are invariant, independent and complete.

Spec: InvariantFilters.tla (orbit vectors, cancellation, character formula), instance MC_InvariantFilters.
MC:   per (G, d, M, k, p): G is a group; every family member is fixed by every g; supports pairwise disjoint;
      |Family| * |G| = sum_g #fix(g) tr(g)^k det(g)^p  (two independent computations of the dimension).
GEN:  the family as dense {0,+-1} vectors and the group as matrices.
Replay: get_unique_invariant_filters (both scalings) called with exactly those matrices must return a family
      in bijection with the spec's: each code filter = non-zero scalar x one spec orbit vector, no vector
      missed, none duplicated;  get_invariant_filters assembles exactly these per (k,p) block;
      GeometricFilter.normalize / rectify only rescale.
"""
import numpy as np

from harness import core, tlc

MODULE = "mc/MC_InvariantFilters.tla"


def instances(tier):
    if tier == "quick":
        return [
            dict(D=2, GroupNames={"B", "ROT", "FLIP", "TRIV", "FLIPX", "DIAG"}, Ms={1, 2, 3, 4}, Ks={0, 1, 2, 3}, MaxBasis=150),
            dict(D=3, GroupNames={"B", "ROT", "FLIP", "TRIV", "C3", "S3"}, Ms={1, 2, 3}, Ks={0, 1, 2}, MaxBasis=250),
        ]
    return [
        dict(D=2, GroupNames={"B", "ROT", "FLIP", "TRIV", "FLIPX", "DIAG", "C4"}, Ms={1, 2, 3, 4, 5}, Ks={0, 1, 2, 3, 4}, MaxBasis=420),
        dict(D=3, GroupNames={"B", "ROT", "FLIP", "TRIV", "C3", "S3", "C4Z", "FLIPX"}, Ms={1, 2, 3}, Ks={0, 1, 2, 3}, MaxBasis=750),
        dict(D=3, GroupNames={"B", "ROT", "FLIP", "C3"}, Ms={4, 5}, Ks={0, 1}, MaxBasis=400),
    ]


def _match(filters, family, tol=1e-5):
    """bijection code filter <-> spec orbit vector up to a non-zero scalar. Returns list of problems."""
    probs = []
    by_support = {}
    for v in family:
        v = np.asarray(v)
        by_support[tuple(np.nonzero(v)[0].tolist())] = v
    used = set()
    for fi, f in enumerate(filters):
        f = np.asarray(f, dtype=np.float64).ravel()
        nz = tuple(np.nonzero(np.abs(f) > tol)[0].tolist())
        if not nz:
            probs.append("filter %d is zero" % fi)
            continue
        v = by_support.get(nz)
        if v is None:
            probs.append("filter %d: support is not an orbit of the group (not invariant or a mixture)" % fi)
            continue
        ratio = f[list(nz)] / v[list(nz)]
        if np.abs(ratio - ratio[0]).max() > tol * max(1.0, abs(ratio[0])) or abs(ratio[0]) < tol:
            probs.append("filter %d: not proportional to its orbit vector (sign pattern / amplitudes differ)" % fi)
            continue
        if nz in used:
            probs.append("filter %d duplicates an earlier one (dependent family)" % fi)
        used.add(nz)
    if len(used) != len(family):
        probs.append("family incomplete: %d of %d invariant orbit vectors produced" % (len(used), len(family)))
    return probs


def replay_chunk(chunk):
    import jax.numpy as jnp
    import ginjax.geometric as geom
    fails, n_eval = [], 0
    for c in chunk:
        D, M, k, p = c["d"], c["M"], c["k"], c["p"]
        ops = [np.array(m) for m in c["ops"]]
        key = {"d": D, "group": c["group"], "M": M, "k": k, "p": p}
        fams = {}
        for scale in ("one", "normalize"):
            n_eval += 1
            try:
                fl = geom.get_unique_invariant_filters(M, k, p, D, ops, scale)
            except Exception as ex:
                fails.append({"key": dict(key, what="get_unique_invariant_filters(%s) raised %s: %s" % (scale, type(ex).__name__, str(ex)[:200]))})
                continue
            fams[scale] = fl
            arrs = [np.asarray(f.data) for f in fl]
            for pr in _match(arrs, c["family"]):
                fails.append({"key": dict(key, scale=scale, what=pr), "n_code": len(fl), "n_spec": len(c["family"]),
                              "chardim": c["chardim"]})
            for f in fl:
                if (f.k, f.parity, f.D) != (k, p, D) or tuple(f.spatial_dims) != (M,) * D:
                    fails.append({"key": dict(key, scale=scale, what="declared type of a filter")})
            # normalize / rectify are rescalings
            for fi, f in enumerate(fl[:6]):
                for nm, g in (("normalize", f.normalize()), ("rectify", f.rectify())):
                    a, b = np.asarray(f.data).ravel(), np.asarray(g.data).ravel()
                    nz = np.abs(a) > 1e-6
                    if not nz.any() or np.abs(b[~nz]).max(initial=0) > 1e-6:
                        fails.append({"key": dict(key, scale=scale, what="%s changed the support" % nm)})
                        continue
                    r = b[nz] / a[nz]
                    if abs(r[0]) < 1e-6 or np.abs(r - r[0]).max() > 1e-5 * abs(r[0]):
                        fails.append({"key": dict(key, scale=scale, what="%s is not a rescaling" % nm)})
        # assembly into a MultiImage: block (k,p) == stack of the unique filters, in order
        if "normalize" in fams:
            n_eval += 1
            try:
                mi = geom.get_invariant_filters([M], [k], [p], D, ops)
                fl = fams["normalize"]
                if len(fl) == 0:
                    if (k, p) in mi:
                        fails.append({"key": dict(key, what="get_invariant_filters has a block for an empty family")})
                else:
                    blk = np.asarray(mi[(k, p)])
                    ref = np.stack([np.asarray(f.data) for f in fl])
                    if blk.shape != ref.shape or not np.allclose(blk, ref, atol=1e-6):
                        fails.append({"key": dict(key, what="get_invariant_filters block differs from the unique filters")})
                    if list(mi.keys()) != [(k, p)] or mi.D != D:
                        fails.append({"key": dict(key, what="get_invariant_filters keys/D")})
            except Exception as ex:
                if len(fams["normalize"]) != 0:      # from_images asserts on an empty list: only then is raising expected
                    fails.append({"key": dict(key, what="get_invariant_filters raised %s: %s" % (type(ex).__name__, str(ex)[:200]))})
    return fails, n_eval


def main(tier):
    chk = core.Check("C03", tier)
    chk.rule = ("one case per (group, d, M, k, p) instance TLC visits; non-trivial when the invariant subspace is non-zero "
                "and the group is not trivial; distinct by instance")
    insts = instances(tier)
    jobs = [dict(module_path=MODULE, cfg=tlc.make_cfg(constants=c, invariants=["Laws", "Emit"]), constants=c,
                 coverage=True, workers=8, timeout=6000) for c in insts]
    cases = []
    for r in tlc.run_many(jobs, parallel=3):
        chk.add_tlc(r, vacuity_actions=("Pick",))
        if not r.ok:
            chk.spec_violation(r, "family laws fail in the specification itself")
        cases += r.cases
    chk.exhaustive = True
    chk.extra["instances"] = [{k: (sorted(v) if isinstance(v, set) else v) for k, v in c.items()} for c in insts]
    # heavy instances first so the pool balances
    cases.sort(key=lambda c: -(c["order"] * (c["M"] ** c["d"] * c["d"] ** c["k"]) ** 2))
    for fails, n in core.pmap(replay_chunk, [[c] for c in cases], chunksize=1):
        chk.evaluations += n
        for f in fails:
            chk.report(f["key"], payload=f)
    for c in cases:
        chk.traces += 1
        if c["chardim"] > 0 and c["order"] > 1:
            chk.distinct.add(core.chash([c["d"], c["group"], c["M"], c["k"], c["p"]]))
    chk.samples = [{k: c[k] for k in ("d", "group", "M", "k", "p", "order", "chardim")} | {"family0": c["family"][0] if c["family"] else []}
                   for c in cases if c["group"] == "B" and c["M"] == 3 and c["k"] == 1][:2]
    chk.assumptions = ["TLC/SANY/Json trusted", "proportionality of a code filter to its orbit vector is tested to 1e-5 (float32 normalisation)",
                       "instances bounded as listed"]
    return chk.finish()


def replay(path):
    import json
    pl = json.load(open(path))
    key = pl["key"]
    consts = dict(D=key["d"], GroupNames={key["group"]}, Ms={key["M"]}, Ks={key["k"]}, MaxBasis=100000)
    r = tlc.run(MODULE, tlc.make_cfg(constants=consts, invariants=["Laws", "Emit"]), constants=consts, workers=4)
    core._pool_init()
    fails, _ = replay_chunk([c for c in r.cases if c["p"] == key["p"]])
    for f in fails[:5]:
        print("VIOLATION property=C03 replay=%s" % path)
        print("  detail:", core.canon(f["key"])[:400])
    return 1 if fails else 0
