"""C11 -- the linear layer computes its defining sum and returns the requested types.

Spec:  ConvContractLayer.tla (Emitted / BiasKind / LayerOutChan on top of Convolution!ConvContract).
MC:    MC_LayerSig: every (input signature, target signature, bank key set, bias mode) in the bounds: Emitted holds only
       requested types, every reachable one with its channels, in requested order; additive bias only on true scalars.
GEN:   expected output signatures (signature level) and, for harness-supplied integer inputs / weights / biases and the
       library's own scale="one" bank, the exact output numerators of every block (Gen_LayerValue).
Replay: real ml.ConvContract layers with those parameters set by eqx.tree_at: output types (nothing reachable dropped, nothing
       extra), channels, spatial shape, and every value exactly (numerator / npix, npix a power of two).
"""
import random

import numpy as np

from harness import convlib, core, layerlib, tlc


def sig_cases(tier):
    import itertools
    T = [(0, 0), (0, 1), (1, 0), (1, 1)]
    sigs = set()
    for r in (1, 2) if tier == "quick" else (1, 2, 3):
        for combo in itertools.permutations(T, r):
            sigs.add(tuple((t, 1 + i) for i, t in enumerate(combo)))
    banks = {frozenset({(0, 0), (1, 0), (1, 1), (2, 0), (2, 1)}),        # B_2, M=3: no pseudo-scalar filter
             frozenset({(0, 0), (0, 1), (1, 0), (1, 1), (2, 0), (2, 1)}),
             frozenset({(0, 0), (1, 0)})}
    return dict(InSigs=sigs, TgtSigs=sigs, BankKeySets=banks, ModeSet={"auto", "mean", "scalar", "true", "false"})


def sig_chunk(chunk):
    import jax.numpy as jnp
    import jax.random as jr
    import ginjax.geometric as geom
    import ginjax.ml as ml
    D, N, M = 2, (4, 2), 3
    fails = []
    rs = np.random.RandomState(0)
    for c in chunk:
        key = {"ins": c["ins"], "tgt": c["tgt"], "bank": c["bank"], "mode": c["mode"]}
        try:
            bank = geom.MultiImage({(k, p): jnp.asarray(rs.randn(2, M, M, *((D,) * k)).astype(np.float32)) for k, p in c["bank"]}, D, True)
            in_sig = geom.Signature(tuple(((t[0], t[1]), n) for t, n in c["ins"]))
            tg_sig = geom.Signature(tuple(((t[0], t[1]), n) for t, n in c["tgt"]))
            layer = ml.ConvContract(in_sig, tg_sig, bank, layerlib.MODE_ARG[c["mode"]], key=jr.PRNGKey(0))
            x = geom.MultiImage({(t[0], t[1]): jnp.asarray(rs.randn(n, *N, *((D,) * t[0])).astype(np.float32)) for t, n in c["ins"]}, D, True)
            out = convlib.quiet(layer, x)
            got = [[list(k), n] for k, n in out.get_signature()]
            want = c["out"]
            if sorted(map(str, got)) != sorted(map(str, want)):
                missing = [w for w in want if w not in got]
                fails.append({"key": dict(key, what="output signature: a reachable requested block is missing" if missing else "output signature",
                                          expected=want, observed=got)})
            elif want and tuple(out.get_spatial_dims()) != N:
                fails.append({"key": dict(key, what="spatial dims", observed=list(out.get_spatial_dims()))})
            if out.D != D or tuple(out.is_torus) != (True, True):
                fails.append({"key": dict(key, what="D / is_torus of the output")})
        except Exception as ex:
            fails.append({"key": dict(key, what="raised %s: %s" % (type(ex).__name__, str(ex)[:200]))})
    return fails, len(chunk)


def main(tier):
    chk = core.Check("C11", tier)
    chk.rule = ("signature cases = seeded sample of the (input sig, target sig, bank keys, bias mode) lattice TLC enumerates; value cases = "
                "random integer layers; non-trivial = some requested type is unreachable, or a bias term is present; distinct by case")
    consts = sig_cases(tier)
    r = tlc.run("mc/MC_LayerSig.tla", tlc.make_cfg(constants=consts, invariants=["Laws", "Emit"]), constants=consts, workers=16,
                coverage=True, timeout=3000)
    chk.add_tlc(r, vacuity_actions=("Pick",))
    if not r.ok:
        chk.spec_violation(r, "Emitted violates its laws in the specification")
    rng = random.Random(core.SEED + 11)
    cases = sorted(r.cases, key=lambda c: core.canon(c))
    n_s = 240 if tier == "quick" else 4000
    sample = rng.sample(cases, min(n_s, len(cases)))
    # every bias mode must be represented on multi-type targets
    for fails, n in core.pmap(sig_chunk, core.shards(sample, 48)):
        chk.evaluations += n
        chk.traces += n
        for f in fails:
            chk.report(f["key"], payload=f)
    for c in sample:
        if len(c["out"]) != len(c["tgt"]) or c["mode"] != "false":
            chk.distinct.add(core.chash(c))
    chk.samples.append(sample[0])
    # ---- value level ------------------------------------------------------------------------------------
    n_v = 40 if tier == "quick" else 400
    vcases = [layerlib.gen_case(rng, D=2 if i % 6 else 3, group="B" if i % 5 else "ROT") for i in range(n_v)]
    vcases = layerlib.corner_cases(2) + vcases
    for c in vcases:
        c["ngs"] = 0                      # equivariance of the layer is C06's business; here only BankInvariant is vacuous
    for i, m in enumerate(["auto", "mean", "scalar", "true", "false"]):
        vcases[i]["mode"] = m
        if len(vcases[i]["tgt"]) < 2:
            vcases[i]["tgt"] = [[[0, 0], 1], [[1, 0], 2]]
            vcases[i]["kmax"] = max(vcases[i]["kmax"], 2)
    specs = [s for ch in core.pmap(layerlib.realise_chunk, core.shards(vcases, 16)) for s in ch]
    # shards() interleaves: re-associate by position
    order = [c for ch in core.shards(vcases, 16) for c in ch]
    exp = layerlib.run_gen(chk, specs)
    items = [(order[i], specs[i], exp[i + 1]) for i in range(len(specs))]
    for fails, n in core.pmap(layerlib.compare_chunk, core.shards(items, 16)):
        chk.evaluations += n
        chk.traces += n
        for f in fails:
            chk.report(f["key"], payload=f)
    for c in order:
        chk.distinct.add(core.chash([c["ins"], c["tgt"], c["mode"], c["cfg"], c["seed"]]))
    chk.samples.append({"value_case": {k: order[0][k] for k in ("ins", "tgt", "mode", "cfg")}, "expected_types": exp[1]["types"],
                        "expected_numerators": exp[1]["vals"][0][0][:12], "npix": exp[1]["npix"]})
    chk.extra["sig_lattice"] = {"signatures": len(consts["InSigs"]), "banks": 3, "modes": 5, "cases": len(cases), "replayed": len(sample)}
    chk.assumptions = ["TLC/SANY/Json trusted", "the filter bank is the library's own (scale='one'); TLC checks it is invariant, C03 that it is complete",
                       "multilinear part decided at random integer points (generic-point argument), float32 exact on them"]
    return chk.finish()


def replay(path):
    import json
    pl = json.load(open(path))
    core._pool_init()
    if "case" in pl:
        chk = core.Check("C11", "quick")
        sc = layerlib.realise(pl["case"])
        exp = layerlib.run_gen(chk, [sc], workers=2)
        fails, _ = layerlib.compare_chunk([(pl["case"], sc, exp[1])])
    else:
        k = pl["key"]
        consts = dict(InSigs={tuple((tuple(t), n) for t, n in k["ins"])}, TgtSigs={tuple((tuple(t), n) for t, n in k["tgt"])},
                      BankKeySets={frozenset(tuple(b) for b in k["bank"])}, ModeSet={k["mode"]})
        r = tlc.run("mc/MC_LayerSig.tla", tlc.make_cfg(constants=consts, invariants=["Laws", "Emit"]), constants=consts, workers=2)
        fails, _ = sig_chunk(r.cases)
    for f in fails[:5]:
        print("VIOLATION property=C11 replay=%s" % path)
        print("  detail:", core.canon(f["key"])[:500])
    return 1 if fails else 0
