"""C12 -- multi-image arithmetic pairs blocks by type, whatever their storage history.

Spec:  MultiImage.tla (AddMI/SubMI/ScaleMI/EqMI defined BY TYPE, PytreeMI sorts the storage order),
       machine MultiImageStore.tla.
MC:    all histories  build a ; build b ; [transform] ; op   over every insertion order of three types whose blocks
       have EQUAL element counts (mis-pairing is silent), constructor vs append, jit / vmap / tree_flatten round
       trips, to_vector/from_vector, copy, rebuilding from the same blocks in another insertion order (== must be
       true) or with two same-shaped blocks exchanged between their types (== must be false); ArithByType: (a+b)[t] = a[t]+b[t] and the result is the same for every
       re-ordering of either operand; operands with different type sets are rejected.
Replay: every behaviour into real MultiImage objects (a real jax.jit / jax.vmap identity for the round trip),
       full projected state compared after every step.  Thorough adds TLC -simulate behaviours of depth 6 with
       concat/split in the history.
"""
import itertools

from harness import core, storereplay, tlc

MODULE = "MultiImageStore.tla"
TERM = {"Add", "Sub", "Eq", "Mul", "DivInv"}
T3 = (((0, 0), (2,)), ((0, 1), (2,)), ((1, 0), (1,)))          # equal element counts on dims (1,2)
T3B = (((0, 0), (2, 2)), ((0, 1), (2, 2)), ((1, 0), (2, 1)))    # with a batch axis


def instances(tier):
    allp = set(itertools.permutations([1, 2, 3]))
    base = dict(D=2, Dims=(1, 2), Torus=(True, False), TypeList=T3, Names={"a", "b"}, ValMode="token", LossGroup=set(), EmitOps=TERM, EmitDepth=0, TerminalOps=TERM)
    out = [
        dict(base, Ops={"New", "BuildAppend", "Add", "Sub", "Eq", "Scale"}, MaxDepth=3, Orders=allp | {(1, 2)}),
        dict(base, Ops={"New", "BuildAppend", "RoundTrip", "ViaVector", "Add", "Sub", "Eq", "Scale"}, MaxDepth=4,
             Orders={(1, 2, 3), (3, 1, 2), (2, 1)}),
    ]
    out.append(dict(base, TypeList=T3B, Dims=(2, 1), Ops={"New", "BuildAppend", "RoundTrip", "Add", "Sub", "Eq", "Scale"}, MaxDepth=4,
                    Orders={(1, 2, 3), (3, 1, 2)}))                                    # blocks with a batch axis
    out.append(dict(base, Names={"a", "b", "c"}, Ops={"New", "Copy", "Add", "Sub", "Scale", "Eq"}, MaxDepth=4,
                    Orders={(1, 2, 3), (2, 3, 1)}))                                    # copies must not share state with their source
    # the same blocks through the constructor in every other insertion order (== must hold), and with the data of the two
    # same-shaped scalar / pseudoscalar blocks exchanged between their types (== must fail)
    out.append(dict(base, Ops={"New", "Rebuild", "RoundTrip", "Add", "Sub", "Eq"}, MaxDepth=4, Orders={(1, 2, 3), (3, 1, 2), (2, 1, 3)}))
    if tier == "thorough":
        out.append(dict(base, TypeList=T3B, Dims=(2, 1), Ops={"New", "BuildAppend", "RoundTrip", "ViaVector", "Copy", "Add", "Sub", "Eq", "Scale"},
                        MaxDepth=4, Orders=allp | {(1, 2), (3, 2)}, Names={"a", "b", "c"}))
    return out


def main(tier):
    chk = core.Check("C12", tier)
    chk.rule = ("behaviours = complete histories of MultiImageStore ending in an arithmetic/comparison step; non-trivial = "
                "the two operands' storage orders differ at the operation; distinct by the whole history")
    insts = instances(tier)
    jobs = [dict(module_path=MODULE, cfg=tlc.make_cfg(constants=c, invariants=["ArithByType", "Emit"], constraint="InOrder"),
                 constants=c, coverage=False, workers=8, timeout=6000) for c in insts]
    behaviours = []
    for r in tlc.run_many(jobs, parallel=2):
        chk.add_tlc(r, vacuity_actions=("New", "BuildAppend", "BinOp", "EqTest", "ScaleOp"))
        if not r.ok:
            chk.spec_violation(r, "arithmetic-by-type fails in the specification itself")
        behaviours += [c["hist"] for c in r.cases]
    chk.exhaustive = True
    if tier == "thorough":
        sim = dict(insts[0], TypeList=T3B, Dims=(2, 1), MaxDepth=6, TerminalOps=set(), Names={"a", "b", "c"},
                   Ops={"New", "BuildAppend", "RoundTrip", "ViaVector", "Copy", "Concat", "Split", "Add", "Sub", "Eq", "Scale"},
                   Orders=set(itertools.permutations([1, 2, 3])) | {(1, 2), (3, 2), (2,)})
        r = tlc.run(MODULE, tlc.make_cfg(constants=sim, invariants=["ArithByType", "Emit"]), constants=sim, workers=8,
                    simulate=dict(num=3000, depth=7, seed=core.SEED + 12), timeout=3000)
        chk.add_tlc(r)
        if not r.ok:
            chk.spec_violation(r, "arithmetic-by-type fails in the specification (simulation)")
        seen = set()
        for c in r.cases:
            h = core.chash(c["hist"])
            if h not in seen:
                seen.add(h)
                behaviours.append(c["hist"])
    chk.extra["instances"] = [{k: (sorted(map(str, v)) if isinstance(v, set) else v) for k, v in c.items()} for c in insts]
    core.require_ops(behaviours, ["New", "BuildAppend", "Add", "Sub", "Eq", "Mul", "DivInv", "RoundTrip", "ViaVector", "Copy", "Rebuild"])
    for fails, n in core.pmap(storereplay.replay_chunk, core.shards(behaviours, 64)):
        chk.evaluations += n
        chk.traces += n
        for f in fails:
            chk.report(f["key"], payload=f)
    for h in behaviours:
        last = h[-1]
        if last["op"] in ("Add", "Sub", "Eq"):
            oa = [s for s in h if s["x"] == last["x"] or s.get("y") == last["x"]]
            # orders of the two operands just before the operation
            ords = {}
            for s in h[:-1]:
                if s["op"] != "Rebuild":
                    ords[s["x"]] = s["after"]["order"]
                if s["op"] in ("Copy", "Rebuild"):
                    ords[s["y"]] = s["after"]["order"]
            if ords.get(last["x"]) != ords.get(last["y"]):
                chk.distinct.add(core.chash(h))
    chk.samples = [{"ops": [dict((k, v) for k, v in s.items() if k not in ("after",)) for s in h],
                    "final_order": h[-1]["after"]["order"], "final_vals": h[-1]["after"]["vals"]} for h in behaviours[1000:1002]]
    chk.assumptions = ["TLC/SANY/Json trusted", "float32 exact on the token values used", "three types, histories of bounded depth"]
    return chk.finish()


def replay(path):
    import json
    pl = json.load(open(path))
    core._pool_init()
    fails, _ = storereplay.replay_chunk([pl["hist"]])
    for f in fails:
        print("VIOLATION property=C12 replay=%s" % path)
        print("  detail:", core.canon(f["key"])[:500])
    return 1 if fails else 0
