"""Binding between Architectures.tla configurations and real ginjax models (C20, C07, C09).

build_model(cfg)      real model for a spec configuration (banks restricted to the configured key sets)
record_forward(...)   one forward pass recorded stage by stage through harness-level wrappers on the layer classes
                      and on MultiImage.concat / __add__ / to_scalar_multi_image / from_scalar_multi_image
"""
import contextlib

import numpy as np

_BANKS = {}


def full_banks(D):
    """the library's banks for the full group: 3^D filters (conv) and 2^D filters (up-sampling)"""
    import ginjax.geometric as geom
    if D not in _BANKS:
        ops = geom.make_all_operators(D)
        kmax = 2
        _BANKS[D] = (geom.get_invariant_filters([3], list(range(kmax + 1)), [0, 1], D, ops),
                     geom.get_invariant_filters([2], list(range(kmax + 1)), [0, 1], D, ops))
    return _BANKS[D]


def bank_keysets(D):
    conv, up = full_banks(D)
    return sorted(conv.keys()), sorted(up.keys())


def restrict(bank, keys):
    import ginjax.geometric as geom
    keys = {tuple(k) for k in keys}
    return geom.MultiImage({k: v for k, v in bank.items() if k in keys}, bank.D, bank.is_torus)


def sig_of(seq):
    import ginjax.geometric as geom
    return geom.Signature(tuple(((t[0], t[1]), c) for t, c in seq))


def build_model(cfg, seed=0, use_bias="auto", activation="gelu"):
    import jax.random as jr
    import ginjax.ml  # noqa: F401  (ginjax.models and ginjax.ml import each other: ml first)
    import ginjax.models as models
    D = cfg["D"]
    conv, up = full_banks(D)
    kw = dict(key=jr.PRNGKey(seed), use_bias=use_bias, equivariant=cfg["equiv"])
    if cfg["equiv"]:
        kw["conv_filters"] = restrict(conv, cfg["bank"])
    else:
        kw["kernel_size"] = 3
    ins, outs = sig_of(cfg["ins"]), sig_of(cfg["outs"])
    if cfg["cls"] == "UNet":
        if cfg["equiv"]:
            kw["upsample_filters"] = restrict(up, cfg["upbank"])
        return models.UNet(D, ins, outs, cfg["depth"], num_downsamples=cfg["ndown"], num_conv=cfg["nconv"], activation_f=activation,
                           use_group_norm=cfg["gn"], **kw)
    if cfg["cls"] == "ResNet":
        return models.ResNet(D, ins, outs, cfg["depth"], num_blocks=cfg["blocks"], num_conv=cfg["nconv"], activation_f=activation,
                             use_group_norm=cfg["gn"], preactivation_order=cfg["preact"], **kw)
    if cfg["cls"] == "DilResNet":
        return models.DilResNet(D, ins, outs, cfg["depth"], num_blocks=cfg["blocks"], activation_f=activation, use_group_norm=cfg["gn"], **kw)
    raise ValueError(cfg["cls"])


def make_input(cfg, seed=0, torus=True):
    import jax.random as jr
    import ginjax.geometric as geom
    D = cfg["D"]
    data = {}
    for j, (t, c) in enumerate(cfg["ins"]):
        data[(t[0], t[1])] = jr.normal(jr.PRNGKey(1000 + seed * 17 + j), (c,) + tuple(cfg["dims"]) + (D,) * t[0])
    return geom.MultiImage(data, D, torus)


def _sig(mi):
    return [[list(k), int(n)] for k, n in mi.get_signature()]


@contextlib.contextmanager
def recording(events):
    """harness-level observers; everything is restored on exit"""
    import equinox as eqx
    import ginjax.geometric as geom
    import ginjax.ml as ml
    saved = []

    def patch(cls, name, wrapper_factory):
        orig = cls.__dict__[name] if name in cls.__dict__ else getattr(cls, name)
        saved.append((cls, name, orig))
        setattr(cls, name, wrapper_factory(orig))

    def layer(kind):
        def fac(orig):
            def call(self, x, *a, **kw):
                out = orig(self, x, *a, **kw)
                events.append({"kind": kind, "sig": _sig(out), "dims": list(out.get_spatial_dims())})
                return out
            return call
        return fac

    def wrapper_fac(orig):
        def call(self, x, *a, **kw):
            out = orig(self, x, *a, **kw)
            mod = next(iter(self.modules.values()))
            if isinstance(mod, (eqx.nn.Conv, eqx.nn.ConvTranspose)):
                kind = "Conv"
            elif isinstance(mod, eqx.nn.GroupNorm):
                kind = "Norm"
            elif isinstance(mod, eqx.nn.Identity):
                return out
            else:
                kind = "Act"
            events.append({"kind": kind, "sig": _sig(out), "dims": list(out.get_spatial_dims())})
            return out
        return call

    def mi_method(kind):
        def fac(orig):
            def call(self, *a, **kw):
                out = orig(self, *a, **kw)
                events.append({"kind": kind, "sig": _sig(out), "dims": list(out.get_spatial_dims())})
                return out
            return call
        return fac
    try:
        patch(ml.ConvContract, "__call__", layer("Conv"))
        patch(ml.GroupNorm, "__call__", layer("Norm"))
        patch(ml.VectorNeuronNonlinear, "__call__", layer("Act"))
        patch(ml.MaxNormPool, "__call__", layer("Pool"))
        patch(ml.LayerWrapper, "__call__", wrapper_fac)
        patch(geom.MultiImage, "concat", mi_method("ConcatSkip"))
        patch(geom.MultiImage, "__add__", mi_method("AddRes"))
        patch(geom.MultiImage, "to_scalar_multi_image", mi_method("ToScalar"))
        patch(geom.MultiImage, "from_scalar_multi_image", mi_method("FromScalar"))
        yield
    finally:
        for cls, name, orig in reversed(saved):
            setattr(cls, name, orig)


def record_forward(cfg, seed=0, model=None, x=None):
    """returns (events, output or None, model or None)"""
    events = []
    try:
        if model is None:
            model = build_model(cfg, seed)
    except Exception as ex:
        return [{"kind": "RaisedAtConstruct", "what": "%s: %s" % (type(ex).__name__, str(ex)[:160])}], None, None
    if x is None:
        x = make_input(cfg, seed)
    out = None
    with recording(events):
        try:
            out, _ = model(x)
        except Exception as ex:
            events.append({"kind": "Raised", "what": "%s: %s" % (type(ex).__name__, str(ex)[:160])})
    if out is not None:
        events.append({"kind": "Final", "sig": _sig(out), "dims": list(out.get_spatial_dims()),
                       "same_meta": bool(out.D == x.D and tuple(out.is_torus) == tuple(x.is_torus))})
    return events, out, model


def perturb(model, seed, scale=0.3, skip_banks=True):
    """move every inexact array parameter away from its initial value (filter banks are left alone)"""
    import equinox as eqx
    import jax
    import jax.random as jr
    import ginjax.ml as ml
    bank_ids = set()
    if skip_banks:
        for leaf in jax.tree_util.tree_leaves(model, is_leaf=lambda n: isinstance(n, ml.ConvContract)):
            if isinstance(leaf, ml.ConvContract):
                bank_ids.update(id(v) for v in jax.tree_util.tree_leaves(leaf.invariant_filters))
    params, static = eqx.partition(model, eqx.is_inexact_array)
    leaves, tree = jax.tree_util.tree_flatten(params)
    new = [l if id(l) in bank_ids else l + scale * jr.normal(jr.PRNGKey(seed * 1000 + i), l.shape, l.dtype) for i, l in enumerate(leaves)]
    n_moved = sum(1 for l in leaves if id(l) not in bank_ids)
    return eqx.combine(jax.tree_util.tree_unflatten(tree, new), static), n_moved


def equivariance_defects(model, x, ops, period=1, tol_floor=1e-2):
    """max per-block relative defect of model(g.x) vs g.model(x) over the operators, and of translations by `period`"""
    import jax.numpy as jnp
    import ginjax.geometric as geom
    y, _ = model(x)
    worst = []
    for gg in ops:
        lhs, _ = model(x.times_group_element(gg))
        rhs = y.times_group_element(gg)
        if set(lhs.keys()) != set(rhs.keys()):
            worst.append({"g": np.asarray(gg).tolist(), "type": None, "defect": float("inf")})
            continue
        for t in rhs.keys():
            a, b = np.asarray(lhs[t], dtype=np.float64), np.asarray(rhs[t], dtype=np.float64)
            den = max(np.linalg.norm(a), np.linalg.norm(b), tol_floor * np.sqrt(a.size))
            worst.append({"g": np.asarray(gg).tolist(), "type": list(t), "defect": float(np.linalg.norm(a - b) / den) if np.isfinite(a).all() and np.isfinite(b).all() else float("inf")})
    shifts = []
    if all(x.is_torus):
        for ax in range(x.D):
            xs = geom.MultiImage({t: jnp.roll(v, period, axis=1 + ax) for t, v in x.items()}, x.D, x.is_torus)
            l2, _ = model(xs)
            for t in y.keys():
                a, b = np.asarray(l2[t], dtype=np.float64), np.roll(np.asarray(y[t], dtype=np.float64), period, axis=1 + ax)
                den = max(np.linalg.norm(a), np.linalg.norm(b), tol_floor * np.sqrt(a.size))
                shifts.append({"axis": ax, "type": list(t), "defect": float(np.linalg.norm(a - b) / den)})
    return y, worst, shifts
