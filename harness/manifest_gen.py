"""Regenerates /verif/MANIFEST.json from the table below (kept valid at all times)."""
import json
import os

VERIF = os.path.dirname(os.path.dirname(os.path.abspath(__file__)))

ALL = ["C%02d" % i for i in range(1, 21)]

CHECKS = {
    "C01": dict(
        engine="tlc+replay",
        technique="TLA+ spec of tensor convolution (Convolution.tla: Src/tap table, CfgG transport) model-checked by TLC for tap-table covariance under every g and cyclic shifts; tap tables and integer value cases replayed exactly into geom.convolve; equivariance re-evaluated exactly on the code",
        category="model_checking",
        text=("TLC checks Covariant(g,c) -- the tap table of the transported configuration is the transported tap table, "
              "ZERO to ZERO, output extents transported -- for every admissible unit-stride cell of the bounded option "
              "lattice (all padding kinds incl. even filters with literal padding, mixed torus flags, filter and image "
              "dilation, non-square) x all 8 elements of B_2 (B_3: three generators, closure checked), plus the translation "
              "law on toroidal axes and the value-level law (g.A)*(g.C)=g.(A*C) on integer images. A seeded sub-sample "
              "of cells is bound to the code by exact tap-table comparison (one geom.convolve call reveals the table; "
              "bilinearity => all real inputs), and the equation is also evaluated exactly on the code for random integer "
              "images of all (k,p)x(k',p') via geom.convolve and GeometricImage.convolve_with."),
        design_ref="DESIGN.md 4 C01",
        note="Trusted: TLC/SANY/Json, numpy, float32 exactness on small integers, C02's binding of the code's group action. Bounded lattice (N<=3-5, M<=3-4, dilations<=2-3).",
    ),
    "C03": dict(
        engine="tlc+replay",
        technique="TLA+ spec of the invariant-filter space (orbit vectors, cancellation, character formula) model-checked per (G,d,M,k,p); the TLC-generated family is matched one-to-one, up to scalars, with get_unique_invariant_filters called on the same group matrices",
        category="model_checking",
        text=("Per instance TLC checks: G is closed; every spec family member is fixed by every g; supports are pairwise "
              "disjoint (independence); |Family|*|G| equals the character sum (completeness by dimension count, an independent "
              "computation). The code's family (both scalings) must be in bijection with the spec family, each code filter a "
              "non-zero multiple of one orbit vector: so the code family is invariant, independent and complete exactly when "
              "the match succeeds. Each instance is decided exactly; no continuous quantifier."),
        design_ref="DESIGN.md 4 C03",
        note="Trusted: TLC/SANY/Json, numpy; proportionality tested to 1e-5 because the library normalises in float32. Instances bounded (d=2: M<=4-5,k<=3-4; d=3: M<=3,k<=2-3; M=4,5 k<=1).",
    ),
    "C04": dict(
        engine="tlc+replay",
        technique="TLA+ definition of convolution in every mode (Convolution.tla) checked by TLC for the size formula and well-defined sources over the full option lattice; TLC-computed tap tables and integer convolutions replayed exactly into geom.convolve / convolve_ravel / convolve_contract / convolve_with",
        category="model_checking",
        text=("TLC enumerates the admissible cells of the option lattice (5 padding kinds, all torus flags, strides, both "
              "dilations, odd/even and non-square filters, d=2,3) checking the size formula and that every tap source is "
              "ZERO or inside the image; for a seeded sub-sample the tap table is compared exactly with the code's "
              "(token image x one-hot filters), which decides those cells for all real inputs by bilinearity. Channel, "
              "batch and tensor-index layout, the raveled-layout contract, the fused contract and the declared type are "
              "decided by exact comparison with TLC-evaluated Convolve/ConvContract on random integer batches; "
              "bilinearity of the code path itself is sampled on floats."),
        design_ref="DESIGN.md 4 C04",
        note="Trusted: TLC/SANY/Json, numpy, float32 exactness. Cells outside the lattice bounds and unsampled cells are not bound to the code.",
    ),
    "C02": dict(
        engine="tlc+replay",
        technique="TLA+ spec of B_d and its action (Hyperoctahedral, GeomImage!Act) model-checked by TLC; spec-generated signed permutations replayed exactly into the three code entry points",
        category="model_checking",
        text=("TLC checks group axioms, pixel-move laws and the action laws (identity, inverse, composition incl. intermediate "
              "shape, signed permutation, per-pixel norm) exhaustively over the bounded shapes/types/elements; every "
              "(shape,k,p,g) state's signed permutation is replayed exactly (tokens, random integers, full basis on small "
              "shapes) into geom.times_group_element, GeometricImage and MultiImage (0/1/2 leading axes), with declared "
              "D/k/parity/extents/flags compared. Linear map decided on a basis => all real images within the bounds."),
        design_ref="DESIGN.md 4 C02",
        note="Trusted: TLC/SANY/Json module, numpy, float32 exactness on |v|<2^24. Exhaustive only within the listed extents (<=4-5), k<=3.",
    ),
    "C05": dict(
        engine="tlc+replay",
        technique="TLA+ register machine over the image algebra with a twin run on g-transformed leaves; TypeSound (twin = Act(g, reg)) and the algebra laws are TLC invariants over all programs to the depth bound; every program replayed on real GeometricImage objects (both runs) with data and declared type compared after each step",
        category="model_checking",
        text=("TLC enumerates every well-typed program up to the depth bound (sum, difference, scalar multiple, tensor product, "
              "transposition, single/multiple contraction, Levi-Civita contraction, squared pixel norm, convolution with a filter "
              "leaf) over random integer leaves x chosen group elements and checks twin[i]=Act(g,reg[i]) for every register plus "
              "contraction order/pair-order independence and tensor-product commutativity up to transposition. Both the plain and the "
              "g-transformed run of every program are replayed on the code, comparing values exactly and the declared k/parity/D/"
              "extents/flags after each step; conformance of both runs to a spec in which TypeSound holds is the property on the code. "
              "Every tensor-product step is also replayed through the functional geom.mul with 0, 1 and 2 leading axes on either "
              "operand (equal and unequal offsets)."),
        design_ref="DESIGN.md 4 C05",
        note="Trusted: TLC/SANY/Json; generic-point argument for polynomial identities (random integer leaves per seed); float32 exact; depth 2 exhaustive (3 thorough), depth 4 simulated.",
    ),
    "C06": dict(
        engine="tlc+replay",
        technique="TLA+ value-level spec of the convolve-and-contract layer; TLC checks bank invariance and LayerOut(g.x)=g.LayerOut(x) on integer weights/biases/inputs with the library's own bank; the real layer is bound to LayerOut exactly; typing calculus (EquivCalculus.tla) model-checked over every bias-branch configuration and bound to the real layer by executing its data-flow graph; float metamorphic check with perturbed parameters on the code",
        category="model_checking",
        text=("For harness-supplied integer inputs, weights and biases and the library's scale='one' bank, TLC checks as invariants that every "
              "filter is fixed by the listed group elements and that the spec layer commutes with them block by block under the transported "
              "configuration -- all five bias modes, TORUS/SAME/up-sampling (even filter, literal padding, image dilation), filter dilation, "
              "d=2,3, full and subgroup banks; the real ml.ConvContract with those parameters (eqx.tree_at) must equal LayerOut exactly. "
              "Separately (exploration) default normalised banks with weights and biases perturbed off initialisation: layer(g.x) vs "
              "g.layer(x) for every g of the bank's group and cyclic shifts, per-block relative defect <= 1e-4. "
              "All-parameters argument: MC_EquivCalculus types the bias branch of every (source, filter, target, mode) configuration as a data-flow "
              "graph in which parameters enter only through invariant-typed nodes (31 listed non-equivariant deviations are rejected); the graph "
              "is executed with the real layer's parameter arrays and must reproduce its output, else the equation test is escalated."),
        design_ref="DESIGN.md 4 C06, 18",
        note="Trusted: TLC/SANY/Json; generic-point argument for the multilinear part; float part is sampling with tolerance (floor RMS 1e-2 on numerically-zero blocks).",
    ),
    "C07": dict(
        engine="tlc+exploration",
        technique="TLA+ forward-pass machine (Architectures.tla) model-checked over the bounded constructor space for structural soundness; architectures drawn from the TLC state space are instantiated, parameters perturbed, and model(g.x)=g.model(x) evaluated numerically for all g and period translations",
        category="model_checking",
        text=("Structure: TLC checks ArchInv for every configuration (class x signatures incl. pseudo-types x depth x blocks x down-samples x "
              "num_conv x normalisation x pre-activation x bank key sets x extents): admissible configurations never get stuck (types fed to a "
              "layer are the types it has weights for, residual sums add equal type sets, skip channel doubling), shape preserved, period "
              "2^downsamples. Equation (exploration, because TLA+ has no sqrt/eigh/gelu): a stratified sample of the admissible equivariant "
              "configurations TLC visited is built, every non-bank parameter perturbed off initialisation, and model(g.x) vs g.model(x) is "
              "measured per output block for all g in B_d plus cyclic translations by the period (tolerance 1e-2, 2-of-3 confirmation)."),
        design_ref="DESIGN.md 4 C07",
        note="The equation half is sampling in continuous variables with a tolerance (correct models measure <= 1e-3 on well-conditioned extents); extents chosen so that odd filters do not degenerate. Layer instances (first 10 per model) are bound to their well-typed EquivCalculus graphs at the perturbed parameters; an unbound instance gets a layer-level equation test (1e-4 / 2e-3), reported as a violation only if it fails twice.",
    ),
    "C08": dict(
        engine="tlc+replay",
        technique="TLA+ declarative spec of average/max-by-norm pooling and nearest-neighbour unpooling with PoolLaws (commutes with every g and with patch-length shifts) as TLC invariant on integer images, replayed exactly into the pooling functions and the MaxNormPool layer; normalisation / vector-neuron / pooling layers typed by the EquivCalculus.tla data-flow calculus (model-checked; graphs executed against the real layers) and checked by a float metamorphic test with random parameters",
        category="model_checking",
        text=("Pooling part: TLC checks on every supplied integer image (unique per-patch norms by construction; ties make max pooling "
              "unspecified) that AvgPoolNum, Unpool and MaxPoolNorm commute with all elements of B_d and with translations by multiples of "
              "the patch length; geom.average_pool / max_pool, GeometricImage.{average_pool,max_pool,unpool} and ml.MaxNormPool must equal "
              "the spec results exactly (d=2,3, k<=2, q=2,3). Normalisation / nonlinearity part (exploration): GroupNorm, LayerNorm, "
              "VectorNeuronNonlinear, MaxNormPool with all array parameters randomised, default eps, every accepted type incl. pseudo-"
              "scalars/vectors, group counts, generic/sparse/constant/zero inputs: f(g.x) vs g.f(x) for every g, per-block tolerance. "
              "All-parameters argument: MC_EquivCalculus checks that the data-flow graph of each layer is well typed for every accepted block type "
              "(and that Cholesky whitening, per-component parameters, a misplaced eps, additive bias / pointwise activation / signed max on "
              "pseudoscalars are ill typed); harness/equivcalc.py executes each graph with the real layer's parameters and compares with the layer "
              "(bound => equivariant for every parameter value; unbound => escalated equation test, reported in the evidence)."),
        design_ref="DESIGN.md 4 C08, 18",
        note="Trusted: TLC/SANY/Json. TLA+ has no sqrt/eigh: the normalisation and vector-neuron equation is sampled on the code (tolerance 1e-4, 2e-3 on the eigh path), not model-checked.",
    ),
    "C09": dict(
        engine="tlc+trace+exploration",
        technique="TLA+ training-loop machine with the filter-bank guard on TrainStep, model-checked over all admitted bank evolutions; real ml.train runs (sgd/adam/adamw) on architectures from the Architectures spec recorded and validated by the TLC trace spec; the returned model re-checked numerically for all g",
        category="model_checking",
        text=("MC_TrainLoop explores loss histories x epoch orders x per-step bank evolutions {same, scaled} and checks LoopInv. Real ml.train "
              "histories on tiny equivariant models (ResNet / U-Net / dilated ResNet, with and without group norm, pseudo-types) with sgd, adam "
              "and adamw+weight decay are recorded through harness-level observers; Trace_TrainLoop validates every StopCheck / MakeBatches / "
              "TrainStep (bank before/after compared leaf by leaf: identical or one common positive factor) / Return. The returned model, whose "
              "parameters must have moved, is then re-checked for model(g.x)=g.model(x) for every g (exploration, tolerance 1e-2)."),
        design_ref="DESIGN.md 4 C09",
        note="Trusted: TLC/SANY/Json. Histories are short (<=3 epochs) and few (3 quick / 8 thorough); the equivariance equation after training is sampled with a tolerance; every ConvContract/GroupNorm/VN instance of the returned model is additionally bound to its well-typed EquivCalculus graph at the trained parameters (an instance that is not gets a layer-level equation test at 1e-4).",
    ),
    "C10": dict(
        engine="tlc+replay",
        technique="TLA+ spec of group averaging (integer numerator), of a non-equivariant integer inner-model family and of the latitude-band re-layout; TLC checks the commutation / round-trip / flip laws per case and emits expected arrays replayed exactly into models.GroupAverage and models.Climate1D",
        category="model_checking",
        text=("For every (operator list, signature incl. pseudo-types, extents, inner model) TLC checks Closed(G) => the average commutes with "
              "every h in G (non-closed lists as negative controls, at least one must break), and for every band signature/order, (lon,lat), "
              "step count and constant layout that From1d o To1d = id, a longitude flip becomes the 1-D flip and the equator symmetrisation "
              "commutes with the equator reflection -- without constant fields and, through an inner model that reads the constant rows and returns the dynamic ones, with them. models.GroupAverage around the Python twin of the inner model (always_average, "
              "inference, off) and Climate1D.to1d/from1d/get_1d_signature/__call__ must reproduce the spec's integer arrays exactly."),
        design_ref="DESIGN.md 4 C10",
        note="Trusted: TLC/SANY/Json; inner-model twin (checked against the spec on every case). Bit-exact for |G| in {1,2,4,8}, 1e-6 relative otherwise.",
    ),
    "C11": dict(
        engine="tlc+replay",
        technique="TLA+ spec of the layer's emitted signature (Emitted/BiasKind) model-checked over the signature x bank-key x bias-mode lattice, and of its value (LayerOutChan) evaluated by TLC on integer cases; both replayed exactly into ml.ConvContract",
        category="model_checking",
        text=("MC_LayerSig enumerates every (input signature, target signature, bank key set, bias mode) in the bounds and checks that "
              "Emitted contains exactly the requested types reachable through an existing filter type, with their channels, in requested "
              "order, and that additive bias is confined to true scalars; a seeded sample is replayed on real layers (signature, shape, D, "
              "flags). Gen_LayerValue computes the exact output numerators (bias terms included, denominator npix) of random integer layers "
              "with the library's own bank; the real layer must reproduce every block exactly -- nothing reachable dropped."),
        design_ref="DESIGN.md 4 C11",
        note="Trusted: TLC/SANY/Json; float32 exact on small integers, npix a power of two. Signature lattice sampled for replay (240 / 4000).",
    ),
    "C12": dict(
        engine="tlc+replay",
        technique="TLA+ multi-image store machine (MultiImage.tla operators defined by type, explicit storage order) model-checked over all construction histories; every TLC behaviour replayed into real MultiImage objects with the full abstract state compared after each step",
        category="model_checking",
        text=("TLC enumerates every history build a; build b; [jit/vmap/tree_flatten round trip | to_vector/from_vector | copy]; "
              "op over all insertion orders of three types whose blocks have equal element counts (so mis-pairing would be silent), "
              "constructor vs append, rebuilding from the same blocks in another insertion order or with two same-shaped blocks "
              "exchanged between their types, and checks ArithByType: (a+b)[t]=a[t]+b[t], results equal for every re-ordering of either "
              "operand, == by type, different type sets rejected. Each behaviour is replayed on real objects (real jax.jit / jax.vmap identity), "
              "blocks compared by type and exactly after every step; thorough adds simulated depth-6 histories with concat/split."),
        design_ref="DESIGN.md 4 C12",
        note="Trusted: TLC/SANY/Json, float32 exactness on tokens. Three types, history depth <= 4 exhaustive (6 simulated).",
    ),
    "C13": dict(
        engine="tlc+replay",
        technique="TLA+ store machine with the re-layout operators (vector, scalar-channel layout contract, concat/split, expand/combine/merge, pmap split, images, pytree) model-checked for the round-trip laws on every reachable state; chains replayed position-exactly on token values; model save/load bit-compared",
        category="model_checking",
        text=("RoundTripLaws and ConcatSplitLaw are TLC invariants over every store state reached by chains of the re-layout "
              "operations themselves (d=1,2,3, non-square, 1-3 leading axes, partial type sets, all storage orders). Every chain "
              "of the bounded depth (plus simulated depth-6 chains) is replayed into real MultiImage objects on token values, so "
              "each intermediate layout -- not only the composed identity -- is compared entry by entry with the specified one. "
              "ml.save/ml.load: Serialise.tla states Load(Save(m), t) = m for every same-structured template t (TLC, all small "
              "leaf-kind sequences, with an arrays-only loader as negative control) and names the leaf kinds a template may differ "
              "in; per model class (layers, networks, GroupAverage, GroupNorm, ModelWrapper) a saved model is loaded into a twin that "
              "differs in its arrays AND in its bool / int / float leaves: every leaf and every output bit-equal afterwards."),
        design_ref="DESIGN.md 4 C13",
        note="Trusted: TLC/SANY/Json, float32 exactness on tokens, equinox serialisation API. Chains bounded (depth 3-4 exhaustive, 6 simulated).",
    ),
    "C14": dict(
        engine="tlc+replay",
        technique="TLA+ definitions of the per-image multi-image operations as the single-image operation on every leading entry; TLC-enumerated layouts replayed exactly; vmap and replacement-invariance of layers/models evaluated numerically",
        category="model_checking",
        text=("The spec defines group action, pixel norm, average pooling, component selection and to_images of a multi-image as "
              "the single-image operator applied to each leading entry (0-3 leading axes with pairwise distinct sizes, several "
              "types, d=1,2,3, every group element); TLC enumerates chains New;op;op and the harness compares the real methods "
              "exactly after each step. For layers and models (equivariant and conventional with group norm) vmap(model)(batch)[i] "
              "is compared with model(batch[i]) and the other batch entries are replaced/permuted (exploration, 1e-5/1e-6 relative)."),
        design_ref="DESIGN.md 4 C14",
        note="Trusted: TLC/SANY/Json; float32 exact on small integers; the vmap half is sampling with a tolerance.",
    ),
    "C15": dict(
        engine="tlc+replay",
        technique="TLA+ windowing spec (declarative index formula vs operational sliding cursor, slot layout) model-checked over all bounded (T,p,f,dt,s); window tables replayed on position-encoding tokens into time_series_idxs / times_series_to_multi_images / batch_time_series",
        category="model_checking",
        text=("For every (T,p,f,dt,s) in the bounds with a window TLC checks that the declarative formula equals the operational "
              "cursor machine, the count T-s-(p+f-1)dt, range, per-channel time order, causality (every input time < every target "
              "time), contiguity and that no window exists when none fits. The emitted tables and slot layouts are compared entry "
              "by entry with the real functions on tokens encoding (type, channel, time, trajectory, pixel, component), with several "
              "channels per type, constants of present and absent types (inputs only), downsample 0/1, 1-3 trajectories stacked "
              "trajectory-major."),
        design_ref="DESIGN.md 4 C15",
        note="Trusted: TLC/SANY/Json; float32 exact on tokens < 2^24 and 2x2 pooling. Bounds T<=9/10, p,f,dt<=3, s<=2/3.",
    ),
    "C16": dict(
        engine="tlc+replay",
        technique="TLA+ rollout machine (sliding window per channel, constants in place) with the closed form as TLC invariant on every step; complete rollouts of a history-sensitive integer model replayed into autoregressive_step / autoregressive_map",
        category="model_checking",
        text=("TLC checks on every step of every behaviour that the operational window update equals the closed form (last `past` "
              "frames of initial++predictions), constants untouched and in place, type order unchanged, for every storage order of "
              "the input and signatures with dynamic+constant, dynamic-only and constant-only types. Each rollout is replayed: "
              "ml.autoregressive_step after every step (exact, storage order included) and ml.autoregressive_map at the end; the "
              "model is an integer map with distinct weights per past slot whose Python twin is itself checked against the spec."),
        design_ref="DESIGN.md 4 C16",
        note="Trusted: TLC/SANY/Json; model twin (checked at each step against TLC's predictions). n<=3/4 steps, past<=3, 8 signatures incl. three shape twins (equal block shapes, different dynamic/constant split); plus a one-process history pass (all short rollouts in sequence, forwards and backwards): a rollout must not depend on earlier ones.",
    ),
    "C17": dict(
        engine="tlc+trace",
        technique="TLA+ training-loop machine (TrainLoop!MakeBatches guards) model-checked over all epoch orders; recorded ml.get_batches calls (token data carrying sample indices) and the batches of real ml.train runs validated by the TLC trace spec",
        category="model_checking",
        text=("MC_TrainLoop explores every duplicate-free epoch order for small (L,B) and checks the loop invariant "
              "(disjoint batches, version arithmetic). Every recorded get_batches call -- all (L, B<=L) up to the bound, "
              "1..3 co-batched multi-images with different type sets, with/without key, device counts dividing B -- is "
              "validated by Trace_TrainLoop: floor(L/B) batches of exactly B, one index sequence shared by every "
              "multi-image and every tensor type, no sample twice per epoch, identity order without key, and the device "
              "axis a pure reshape (same order as with one device). MC_EvalLoop does the same for evaluation in batches "
              "(EvalInv: every evaluated sample enters loss and map exactly once; termination), and recorded "
              "map_loss_in_batches / map_plus_loss_in_batches runs on 1, 2 and 4 forced host-platform devices (a real pmap) are "
              "validated against EvalBatches / EvalStep / EvalReturn: every batch once, in order, aligned, on the given model in "
              "inference mode, device mean and batch mean exact, mapped output in batch order. Rejections name the violated guard."),
        design_ref="DESIGN.md 4 C17, 16.1",
        note="Trusted: TLC/SANY/Json; host-platform CPU devices (get_batches device counts via repeated handles, pmap runs on forced host devices). (L,B) exhaustive to 8/12, keys sampled (12/30 per (L, B>=3)).",
    ),
    "C18": dict(
        engine="tlc+replay",
        technique="TLA+ loss numerators (Losses.tla) over the multi-image store; TLC checks pairing-by-type, zero-iff-equal, step-sum and group-invariance laws on every store state and emits numerators that the real losses are compared with",
        category="model_checking",
        text=("LossLaws is a TLC invariant on every store state built by all insertion orders / append / pytree round trips: "
              "numerators unchanged by re-ordering either argument, >=0, zero iff equal by type, sum of per-step = total, "
              "unchanged when the same group element acts on both arguments. For each behaviour smse_loss (mean/None), "
              "timestep_smse_loss (mean/max/None) and normalized_smse_loss (exact and default eps) are compared with "
              "numerator/denominator (2e-6 relative; a mis-pairing moves an integer numerator by >= 1), d=2,3, non-square."),
        design_ref="DESIGN.md 4 C18",
        note="Trusted: TLC/SANY/Json; float64 evaluation of numerator/denominator vs float32 library arithmetic (tolerance 2e-6 / 2e-5).",
    ),
    "C19": dict(
        engine="tlc+replay+trace",
        technique="TLA+ stopping machine (operational rule vs declarative reading) model-checked over all bounded loss histories; every TLC history replayed through TrainLoss/ValLoss/EpochStop in four scalar representations; real ml.train runs recorded and validated by a TLC trace spec of the training loop",
        category="model_checking",
        text=("TLC checks, for every loss history over a 4-letter ordered alphabet up to the length bound and every "
              "(patience, min_delta), that the one-step-per-epoch rule agrees with the declarative reading (stop at the "
              "first epoch with more than `patience` consecutive non-improvements, never earlier, best model = last "
              "improving epoch), EpochStop stops at exactly `epochs`; MC_TrainLoop checks the loop design (LoopInv) and "
              "termination under fairness on a non-improving history. Binding A replays every maximal history into the "
              "real classes with float / numpy.float32 / numpy.float64 / 0-d jax losses comparing stop() and best_model "
              "identity after every call; binding B validates recorded traces of real ml.train runs (scripted losses) "
              "against TrainLoop.tla, naming the violated guard."),
        design_ref="DESIGN.md 4 C19",
        note="Trusted: TLC/SANY/Json; the scripted-loss model (SGD lr=1 step counter). Histories bounded (length<=5/7, patience<=2/3); EpochStop counts 0..4 (0: stopped by the pre-training call, the input model handed back) and 11.",
    ),
    "C20": dict(
        engine="tlc+trace",
        technique="TLA+ forward-pass machine over signatures (Architectures.tla) model-checked over the constructor space; recorded forward passes of real models (stage-by-stage, harness-level observers) validated by a TLC trace spec, incl. the ordered output signature; layer-level block order replayed from MC_LayerSig",
        category="model_checking",
        text=("TLC checks ArchInv over the bounded constructor space in both modes (channel arithmetic depth*2^level, skip doubling, decode "
              "emits requested types/channels/order, conventional mode = ToScalar -> scalar stages -> FromScalar(requested)). Real models "
              "for a stratified sample of admissible and inadmissible configurations are run once; each observable stage (kind, signature, "
              "extents) and the final ordered signature, extents, D and flags -- or the predicted failure -- are validated by "
              "Trace_Architectures, which names the violated guard. The decode layer's requested block order is additionally replayed at "
              "layer level; the positional component placement of the conventional mode is decided in C13."),
        design_ref="DESIGN.md 4 C20",
        note="Trusted: TLC/SANY/Json; observers are harness-level wrappers. Extents incompatible with pooling are outside the property (not validated).",
    ),
}

PENDING_REASON = "check not built yet in this round (planned in DESIGN.md 4); not claimed until its machinery exists"


def main():
    checks = []
    for pid in ALL:
        if pid not in CHECKS:
            continue
        c = CHECKS[pid]
        checks.append({
            "property_id": pid,
            "quick_cmd": "bin/check %s --tier quick" % pid,
            "thorough_cmd": "bin/check %s --tier thorough" % pid,
            "evidence_file": "/verif/evidence/%s.json" % pid,
            "replay_cmd_template": "bin/check %s --replay {path}" % pid,
            "engine": c["engine"],
            "level_claimed": {"category": c["category"], "text": c["text"], "design_ref": c["design_ref"]},
            "level_note": c["note"],
            "technique": c["technique"],
        })
    man = {
        "version": 1,
        "setup_cmd": "bin/setup",
        "hooks": {
            "guard": "GINJAX_VERIF",
            "enable": "no in-tree hooks: every observer is installed by the harness (logging StopCondition proxy, wrapped map_and_loss, wrapped module attributes); checks export GINJAX_VERIF=1 and put $VERIF_REPO/src (default /repo/src) first on sys.path",
            "baseline_off_cmd": "cd /repo && /venv/bin/python -m pytest -ra -q -p no:cacheprovider --timeout=900 --continue-on-collection-errors",
            "source_commits": [],
            "add_only": True,
        },
        "engines": [
            {"name": "tlc+replay", "path": "harness/tlc.py", "serves_properties": sorted(CHECKS),
             "kind_free_text": "TLC 1.8 model checking of the TLA+ modules under spec/, CASE lines (ToJson) replayed into ginjax; recorded traces validated by TLC trace specs"},
        ],
        "checks": checks,
        "notes": "Specifications: spec/*.tla (vocabulary + machines), spec/mc (MC/GEN instances), spec/trace (trace specs). known_findings.json lists repaired (fixed:) and recorded (known) genuine defects. Specification coverage beyond the listed properties (not registered as property checks): `bin/extra benchmark` -- Benchmark.tla, the ml.benchmark loop, model-checked and trace-validated against recorded real runs (DESIGN 17); `bin/extra calculus` -- EquivCalculus.tla alone (typing calculus of the equivariant layers' data flow, also embedded in C06 and C08; DESIGN 18).",
        "not_applicable": [{"property_id": p, "reason": NA.get(p, PENDING_REASON)} for p in ALL if p not in CHECKS],
    }
    with open(os.path.join(VERIF, "MANIFEST.json"), "w") as f:
        json.dump(man, f, indent=1)
    print("MANIFEST.json: %d checks, %d not_applicable" % (len(checks), len(man["not_applicable"])))


NA = {}

if __name__ == "__main__":
    main()
