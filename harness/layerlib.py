"""Shared machinery for the ConvContract layer checks (C11, C06): case generation, code-side layer construction with
integer parameters, comparison with Gen_LayerValue's numerators."""
import json
import os
import random

import numpy as np

from harness import convlib, core, tlc

TYPES = [(0, 0), (0, 1), (1, 0), (1, 1), (2, 0)]
MODE_ARG = {"auto": "auto", "mean": "mean", "scalar": "scalar", "true": True, "false": False}
_BANKS = {}


def group_ops(D, name):
    import ginjax.geometric as geom
    ops = geom.make_all_operators(D)
    if name == "B":
        return ops
    if name == "ROT":
        return [g for g in ops if round(float(np.linalg.det(g))) == 1]
    if name == "FLIP":
        return geom.make_C2_group(D)
    raise ValueError(name)


def mat_to_g(m):
    m = np.asarray(m)
    p = [int(np.nonzero(m[i])[0][0]) + 1 for i in range(m.shape[0])]
    s = [int(m[i, p[i] - 1]) for i in range(m.shape[0])]
    return {"p": p, "s": s}


def code_bank(D, M, kmax, group, scale="one"):
    """the library's own filter bank (cached per process)"""
    import ginjax.geometric as geom
    key = (D, M, kmax, group, scale)
    if key not in _BANKS:
        _BANKS[key] = geom.get_invariant_filters([M], list(range(kmax + 1)), [0, 1], D, group_ops(D, group), scale)
    return _BANKS[key]


def bank_to_spec(bank, D):
    types, filts = [], []
    for (k, p), blk in bank.items():
        a = np.asarray(blk)
        if not np.all(a == np.rint(a)):
            raise RuntimeError("scale='one' bank has non-integer entries")
        types.append([k, p])
        filts.append([dict(dims=list(f.shape[:D]), k=k, p=p, val=np.rint(f).astype(int).ravel().tolist()) for f in a])
    return {"types": types, "filts": filts}


def gen_case(rng, D=2, group="B"):
    conf = rng.choice(["TORUS", "SAME", "UP"]) if D == 2 else rng.choice(["TORUS", "SAME"])
    if D == 2:
        N = rng.choice([[2, 2], [2, 4], [4, 2]]) if conf != "UP" else rng.choice([[2, 2], [1, 2], [2, 1]])
    else:
        N = rng.choice([[2, 2, 2], [1, 2, 2]])
    if conf == "UP":        # the U-Net's up-sampling configuration: even filter, literal padding, image dilation
        cfg = dict(N=N, M=[2] * D, torus=[False] * D, mode="EXPL", pad=[[1, 1]] * D, stride=[1] * D, rdil=[1] * D, ldil=[2] * D)
    else:
        torus = [rng.random() < 0.6 for _ in range(D)] if conf == "TORUS" else [False] * D
        rd = rng.choice([1, 1, 2])
        cfg = dict(N=N, M=[3] * D, torus=torus, mode=conf, pad=[[0, 0]] * D, stride=[1] * D, rdil=[rd] * D, ldil=[1] * D)
    kcap = 1 if (D == 3 or rng.random() < 0.7) else 2
    pool = [t for t in TYPES if t[0] <= kcap]
    n_in, n_out = rng.randint(1, min(3, len(pool))), rng.randint(1, min(3, len(pool)))
    ins = [[list(t), c] for t, c in zip(rng.sample(pool, n_in), rng.sample([1, 2, 3], n_in))]
    tgt = [[list(t), c] for t, c in zip(rng.sample(pool, n_out), rng.sample([1, 2, 3], n_out))]
    ins = [[t, min(c, 2)] for t, c in ins]
    tgt = [[t, min(c, 2)] for t, c in tgt]
    mode = rng.choice(["auto", "mean", "scalar", "true", "false"])
    return dict(D=D, cfg=cfg, ins=ins, tgt=tgt, mode=mode, group=group, kmax=2 * kcap, M=cfg["M"][0],
                seed=rng.randint(0, 10 ** 6), ngs=2)


def corner_cases(D=2):
    """deterministic cases that every run includes: every bias mode on a layer whose targets are a true scalar, a pseudoscalar
    (reachable only through vector / pseudovector inputs) and a pseudovector, with several input types feeding the same target"""
    out = []
    for i, mode in enumerate(["auto", "mean", "scalar", "true", "false"]):
        cfg = dict(N=[2, 2] if D == 2 else [2, 2, 1], M=[3] * D, torus=[True] * D if i % 2 == 0 else [False] * D,
                   mode="TORUS" if i % 2 == 0 else "SAME", pad=[[0, 0]] * D, stride=[1] * D, rdil=[1] * D, ldil=[1] * D)
        out.append(dict(D=D, cfg=cfg, ins=[[[1, 0], 2], [[0, 1], 1], [[0, 0], 1]], tgt=[[[0, 1], 2], [[0, 0], 1], [[1, 1], 1]], mode=mode,
                        group="B", kmax=2, M=3, seed=1000 + i, ngs=2))
    # mixed per-axis torus flags, both ways round, on a non-square image (a wrap applied to the wrong / to every axis shows here)
    for i, torus in enumerate(([True, False], [False, True]) if D == 2 else ()):
        cfg = dict(N=[2, 3], M=[3] * D, torus=torus, mode="TORUS", pad=[[0, 0]] * D, stride=[1] * D, rdil=[1] * D, ldil=[1] * D)
        out.append(dict(D=D, cfg=cfg, ins=[[[1, 0], 1], [[0, 0], 2]], tgt=[[[0, 0], 1], [[1, 0], 2]], mode="auto",
                        group="B", kmax=2, M=3, seed=1100 + i, ngs=2))
    return out


def realise(case):
    """fill in data (needs the code's bank): x, W, b, bank, gs.  Returns the JSON-able spec case."""
    rng = random.Random(case["seed"])
    D, cfg = case["D"], case["cfg"]
    bank = code_bank(D, case["M"], case["kmax"], case["group"])
    sb = bank_to_spec(bank, D)
    keys = {tuple(t) for t in sb["types"]}
    nf = {tuple(t): len(f) for t, f in zip(sb["types"], sb["filts"])}
    x = {"types": [t for t, _ in case["ins"]], "blks": []}
    for t, c in case["ins"]:
        n = int(np.prod(cfg["N"])) * D ** t[0]
        x["blks"].append([dict(dims=cfg["N"], k=t[0], p=t[1], val=[rng.randint(-3, 3) for _ in range(n)]) for _ in range(c)])
    W = []
    for si, (s, ci) in enumerate(case["ins"], 1):
        for ti, (t, co) in enumerate(case["tgt"], 1):
            ft = (s[0] + t[0], (s[1] + t[1]) % 2)
            if ft in keys:
                W.append({"si": si, "ti": ti, "w": [[[rng.randint(-2, 2) for _ in range(nf[ft])] for _ in range(ci)] for _ in range(co)]})
    b = [[rng.choice([-3, -2, -1, 1, 2, 3]) for _ in range(co)] for _, co in case["tgt"]]
    ops = group_ops(D, case["group"])
    gs = [mat_to_g(ops[i]) for i in rng.sample(range(1, len(ops)), min(case["ngs"], len(ops) - 1))]
    return dict(cfg=cfg, x=x, W=W, b=b, bank=sb, mode=case["mode"], tgt=case["tgt"], gs=gs)


def realise_chunk(cases):
    return [realise(c) for c in cases]


class LayerMismatch(Exception):
    pass


def build_layer(case, spec_case, geom, ml, jnp, jr, eqx):
    D, cfg = case["D"], case["cfg"]
    bank = code_bank(D, case["M"], case["kmax"], case["group"])
    kw = convlib.code_args(cfg, 0)
    in_sig = geom.Signature(tuple(((t[0], t[1]), c) for t, c in case["ins"]))
    tg_sig = geom.Signature(tuple(((t[0], t[1]), c) for t, c in case["tgt"]))
    pad = kw["padding"]
    if cfg["mode"] in ("TORUS", "SAME"):
        pad = None if (cfg["mode"] == "SAME" or any(cfg["torus"])) else "TORUS"
    # two spellings of "no image dilation": (1,..,1) and None (the layer's default; code paths may test `lhs_dilation is None`)
    ldil = None if (set(cfg["ldil"]) == {1} and case["seed"] % 3 != 0) else kw["lhs_dilation"]
    layer = ml.ConvContract(in_sig, tg_sig, bank, MODE_ARG[case["mode"]], kw["stride"], pad, ldil, kw["rhs_dilation"], key=jr.PRNGKey(1))
    # integer parameters
    for w in spec_case["W"]:
        s = tuple(case["ins"][w["si"] - 1][0])
        t = tuple(case["tgt"][w["ti"] - 1][0])
        arr = jnp.asarray(np.array(w["w"], dtype=np.float32))
        if t not in layer.weights.get(s, {}) or layer.weights[s][t].shape != arr.shape:
            got = layer.weights.get(s, {}).get(t)
            raise LayerMismatch("weights from %s to %s: the layer holds %s, the filter type (k_s+k_t, (p_s+p_t) mod 2) requires %s"
                                % (s, t, None if got is None else tuple(got.shape), tuple(arr.shape)))
        layer = eqx.tree_at(lambda l: l.weights[s][t], layer, arr)
    for ti, (t, co) in enumerate(case["tgt"]):
        t = tuple(t)
        if t in layer.bias:
            arr = jnp.asarray(np.array(spec_case["b"][ti], dtype=np.float32).reshape((co,) + (1,) * (D + t[0])))
            layer = eqx.tree_at(lambda l: l.bias[t], layer, arr)
    xd = {}
    for t, blk in zip(spec_case["x"]["types"], spec_case["x"]["blks"]):
        xd[(t[0], t[1])] = jnp.asarray(np.array([np.array(im["val"], dtype=np.float32).reshape(tuple(im["dims"]) + (D,) * t[0]) for im in blk]))
    flags = tuple(bool(f) for f in cfg["torus"]) if cfg["mode"] == "TORUS" else (False,) * D
    x = geom.MultiImage(xd, D, flags)
    return layer, x


def run_gen(chk, spec_cases, workers=16):
    os.makedirs(tlc.WORK, exist_ok=True)
    path = os.path.join(tlc.WORK, "layer_input_%s_%d.json" % (chk.prop, os.getpid()))
    with open(path, "w") as f:
        json.dump({"cases": spec_cases}, f)
    try:
        r = tlc.run("gen/Gen_LayerValue.tla", tlc.make_cfg(invariants=["Laws", "Emit"]), env={"LAYER_INPUT": path}, workers=workers,
                    coverage=False, timeout=6000)
    finally:
        os.remove(path)
    chk.add_tlc(r, vacuity_actions=("Pick",))
    if not r.ok:
        chk.spec_violation(r, "bank invariance / layer equivariance fails in the specification")
    return {c["n"]: c for c in r.cases}


def compare_chunk(chunk):
    import jax.numpy as jnp
    import jax.random as jr
    import equinox as eqx
    import ginjax.geometric as geom
    import ginjax.ml as ml
    fails = []
    for case, sc, exp in chunk:
        D = case["D"]
        key = {"ins": case["ins"], "tgt": case["tgt"], "mode": case["mode"], "cfg": case["cfg"], "group": case["group"]}
        try:
            layer, x = build_layer(case, sc, geom, ml, jnp, jr, eqx)
            out = convlib.quiet(layer, x)
        except RuntimeError:
            raise
        except LayerMismatch as ex:
            fails.append({"key": dict(key, what="layer parameterisation: " + str(ex)), "case": case})
            continue
        except Exception as ex:
            fails.append({"key": dict(key, what="layer raised %s: %s" % (type(ex).__name__, str(ex)[:200])), "case": case})
            continue
        want_types = [tuple(t) for t in exp["types"]]
        got_types = list(out.keys())
        if set(got_types) != set(want_types):
            missing = sorted(set(want_types) - set(got_types))
            extra = sorted(set(got_types) - set(want_types))
            fails.append({"key": dict(key, what="output types: a reachable requested block is missing" if missing else "output types: unexpected block",
                                      missing=[list(t) for t in missing], extra=[list(t) for t in extra]), "case": case})
        npix = exp["npix"]
        for j, t in enumerate(want_types):
            if t not in out.keys():
                continue
            g = np.asarray(out[t], dtype=np.float64)
            co = dict((tuple(tt), c) for tt, c in case["tgt"])[t]
            shp = (co,) + tuple(exp["dims"]) + (D,) * t[0]
            if g.shape != shp:
                fails.append({"key": dict(key, what="output block shape", type=list(t), expected=list(shp), observed=list(g.shape)), "case": case})
                continue
            w = np.array(exp["vals"][j], dtype=np.float64).reshape(shp)
            exact = (npix & (npix - 1)) == 0
            ok = np.array_equal(g * npix, w) if exact else np.allclose(g * npix, w, rtol=1e-6, atol=1e-4)
            if not ok:
                fails.append({"key": dict(key, what="output block values", type=list(t)), "case": case,
                              "expected_num": w.ravel().tolist()[:40], "observed_num": (g * npix).ravel().tolist()[:40], "npix": npix})
        if out.D != D:
            fails.append({"key": dict(key, what="output D"), "case": case})
    return fails, len(chunk)
