--------------------------- MODULE MultiImageStore ---------------------------
(***************************************************************************)
(* Machine: a small store of named multi-images and the library's          *)
(* operations on them, one action per public API call.  Used by            *)
(*   C12 (arithmetic pairs blocks by type whatever the storage history),   *)
(*   C13 (re-layouts are lossless round trips),                            *)
(*   C14 (per-image operations act entry by entry).                        *)
(* `hist` records every step with the resulting abstract state; complete   *)
(* behaviours are replayed into real MultiImage objects by the harness,    *)
(* which compares the full projected state after every step.               *)
(***************************************************************************)
EXTENDS Losses, TLC, Json

CONSTANTS D, Dims, Torus,
          TypeList,     \* Seq(<<type, lead>>): the types and the leading shape of their base blocks
          Names,        \* object names, e.g. {"a","b"}
          Ops,          \* set of enabled operation names
          MaxDepth,
          Orders,       \* set of storage orders (sequences of indices into TypeList) a constructor may use
          LossGroup,    \* the group elements for the symmetry-invariance law of the losses (C18)
          ValMode,      \* "token": distinct entry values;  "small": small signed integers (for norms / products)
          EmitOps,      \* a behaviour is emitted when its last step is one of these operations
          EmitDepth,    \* ... or when it has exactly this many steps (0: never)
          TerminalOps   \* no step follows one of these operations (keeps exhaustive runs to build/transform/op shapes)

VARIABLES obj, hist
vars == <<obj, hist>>

NONE == [d |-> 0, dims |-> <<>>, torus |-> <<>>, order |-> <<>>, blks |-> <<>>]
Present(x) == obj[x].d # 0
NameBase(x) == CASE x = "a" -> 1000 [] x = "b" -> 3000 [] x = "c" -> 5000 [] OTHER -> 7000
BaseBlk(x, i) == LET lead == TypeList[i][2]
                     n == ProdSeq(lead) * ProdSeq(Dims) * Pow(D, TypeList[i][1][1])
                 IN [lead |-> lead, val |-> Eager([m \in 1..n |-> IF ValMode = "token" THEN NameBase(x) + 100 * i + m
                                                              ELSE (((NameBase(x) + 100 * i + m) * 7919) % 11) - 5])]
Fresh(x, ord) == [d |-> D, dims |-> Dims, torus |-> Torus,
                  order |-> [j \in 1..Len(ord) |-> TypeList[ord[j]][1]],
                  blks  |-> [j \in 1..Len(ord) |-> BaseBlk(x, ord[j])]]

Snap(m) == [d |-> m.d, dims |-> m.dims, torus |-> m.torus, order |-> m.order,
            leads |-> [i \in 1..Len(m.order) |-> m.blks[i].lead],
            vals  |-> [i \in 1..Len(m.order) |-> m.blks[i].val]]
Step(rec) == hist' = Append(hist, rec)
Room == Len(hist) < MaxDepth /\ (IF hist = <<>> THEN TRUE ELSE hist[Len(hist)].op \notin TerminalOps)

Init == obj = [x \in Names |-> NONE] /\ hist = <<>>

(* ---------------- constructors and history-only operations ---------------- *)
New(x, ord) == /\ "New" \in Ops /\ Room /\ ~Present(x)
               /\ obj' = [obj EXCEPT ![x] = Fresh(x, ord)]
               /\ Step([op |-> "New", x |-> x, ord |-> ord, after |-> Snap(Fresh(x, ord))])
BuildAppend(x, ord) == /\ "BuildAppend" \in Ops /\ Room /\ ~Present(x)
                       /\ obj' = [obj EXCEPT ![x] = Fresh(x, ord)]
                       /\ Step([op |-> "BuildAppend", x |-> x, ord |-> ord, after |-> Snap(Fresh(x, ord))])
CopyTo(x, y) == /\ "Copy" \in Ops /\ Room /\ Present(x) /\ ~Present(y)
                /\ obj' = [obj EXCEPT ![y] = obj[x]]
                /\ Step([op |-> "Copy", x |-> x, y |-> y, after |-> Snap(obj[x])])
(* a second object made from the blocks of x through the constructor: in another insertion order (pi), and optionally
   with the data of two same-shaped blocks exchanged between their types (i # j) -- equal to x exactly when i = j *)
SwapBlks(m, i, j) == [m EXCEPT !.blks = [n \in 1..Len(m.order) |-> IF n = i THEN m.blks[j] ELSE IF n = j THEN m.blks[i] ELSE m.blks[n]]]
PermuteMI(m, pi)  == [m EXCEPT !.order = [n \in 1..Len(m.order) |-> m.order[pi[n]]],
                               !.blks  = [n \in 1..Len(m.order) |-> m.blks[pi[n]]]]
Rebuild(x, y, pi, i, j) ==
  /\ "Rebuild" \in Ops /\ Room /\ Present(x) /\ ~Present(y)
  /\ i <= j /\ j <= Len(obj[x].order)
  /\ (i # j => obj[x].order[i][1] = obj[x].order[j][1] /\ obj[x].blks[i].lead = obj[x].blks[j].lead)
  /\ LET sw == SwapBlks(obj[x], i, j)
         r  == PermuteMI(sw, pi) IN
     /\ obj' = [obj EXCEPT ![y] = r]
     /\ Step([op |-> "Rebuild", x |-> x, y |-> y,
              src |-> [n \in 1..Len(r.order) |-> LET q == pi[n] IN obj[x].order[IF q = i THEN j ELSE IF q = j THEN i ELSE q]],
              swapped |-> (i # j), after |-> Snap(r)])
SameFirst(m) == \A i \in 1..Len(m.order) : Len(m.blks[i].lead) >= 1 /\ m.blks[i].lead[1] = m.blks[1].lead[1]
RoundTrip(x, how) == /\ "RoundTrip" \in Ops /\ Room /\ Present(x)
                     /\ (how = "vmap" => SameFirst(obj[x]))
                     /\ obj' = [obj EXCEPT ![x] = PytreeMI(obj[x])]
                     /\ Step([op |-> "RoundTrip", x |-> x, how |-> how, after |-> Snap(PytreeMI(obj[x]))])
ViaVector(x) == /\ "ViaVector" \in Ops /\ Room /\ Present(x)
                /\ LET r == FromVector(ToVector(obj[x]), obj[x]) IN
                   /\ obj' = [obj EXCEPT ![x] = r]
                   /\ Step([op |-> "ViaVector", x |-> x, vec |-> ToVector(obj[x]), after |-> Snap(r)])

(* ---------------- concatenate / split ---------------- *)
Compatible(a, b, ax) == /\ CanConcat(a, b) /\ ax <= NLead(a) /\ NLead(a) = NLead(b)
                        /\ \A t \in TypeSet(a) \cap TypeSet(b) :
                             \A j \in 1..NLead(a) : j # ax => Blk(a, t).lead[j] = Blk(b, t).lead[j]
Concat(x, y, ax) == /\ "Concat" \in Ops /\ Room /\ Present(x) /\ Present(y) /\ x # y /\ Compatible(obj[x], obj[y], ax)
                    /\ LET r == ConcatMI(obj[x], obj[y], ax) IN
                       /\ obj' = [obj EXCEPT ![x] = r]
                       /\ Step([op |-> "Concat", x |-> x, y |-> y, ax |-> ax, after |-> Snap(r)])
SplitSigs(m, ax) ==          \* a few split signatures: one entry of every type; everything of the first type; alternate
  { [i \in 1..Len(m.order) |-> <<m.order[i], 1>>],
    [i \in 1..Len(m.order) |-> <<m.order[i], IF i = 1 THEN m.blks[i].lead[ax] ELSE 0>>],
    [i \in 1..Len(m.order) |-> <<m.order[i], IF i % 2 = 0 THEN m.blks[i].lead[ax] - 1 ELSE 1>>] }
Split(x, y, ax) == /\ "Split" \in Ops /\ Room /\ Present(x) /\ ~Present(y) /\ ax <= NLead(obj[x])
                   /\ \E sig \in SplitSigs(obj[x], ax) :
                        /\ \A i \in 1..Len(sig) : sig[i][2] >= 0 /\ sig[i][2] <= obj[x].blks[i].lead[ax]
                        /\ LET r == ConcatInverse(obj[x], sig, ax) IN
                           /\ r[1].order # <<>> /\ r[2].order # <<>>
                           /\ obj' = [obj EXCEPT ![x] = r[1], ![y] = r[2]]
                           /\ Step([op |-> "Split", x |-> x, y |-> y, ax |-> ax, sig |-> sig,
                                    after |-> Snap(r[1]), after2 |-> Snap(r[2])])

(* ---------------- reshapes of leading axes ---------------- *)
ExpandOp(x, ax, size) == /\ "Expand" \in Ops /\ Room /\ Present(x) /\ ax <= NLead(obj[x]) /\ size > 1
                         /\ \A i \in 1..Len(obj[x].order) : obj[x].blks[i].lead[ax] % size = 0
                         /\ LET r == Expand(obj[x], ax, size) IN
                            /\ obj' = [obj EXCEPT ![x] = r]
                            /\ Step([op |-> "Expand", x |-> x, ax |-> ax, size |-> size, after |-> Snap(r)])
CombineOp(x, a1, how) == /\ "Combine" \in Ops /\ Room /\ Present(x) /\ a1 + 1 <= NLead(obj[x])
                         /\ LET r == Combine(obj[x], a1, a1 + 1) IN
                            /\ obj' = [obj EXCEPT ![x] = r]
                            /\ Step([op |-> how, x |-> x, a1 |-> a1, after |-> Snap(r)])      \* how: combine_axes / merge_axes
PmapOp(x, n) == /\ "Pmap" \in Ops /\ Room /\ Present(x) /\ NLead(obj[x]) >= 1 /\ SameFirst(obj[x]) /\ n > 1
                /\ obj[x].blks[1].lead[1] % n = 0
                /\ LET r == ReshapePmap(obj[x], n) IN
                   /\ obj' = [obj EXCEPT ![x] = r]
                   /\ Step([op |-> "Pmap", x |-> x, n |-> n, after |-> Snap(r)])
SubsetOp(x, idxs) == /\ "Subset" \in Ops /\ Room /\ Present(x) /\ NLead(obj[x]) >= 1 /\ SameFirst(obj[x])
                     /\ \A j \in 1..Len(idxs) : idxs[j] < obj[x].blks[1].lead[1]
                     /\ LET r == GetSubset(obj[x], idxs) IN
                        /\ obj' = [obj EXCEPT ![x] = r]
                        /\ Step([op |-> "Subset", x |-> x, idxs |-> idxs, after |-> Snap(r)])

(* ---------------- components <-> scalar channels, images ---------------- *)
SharedBatch(m) == \A i \in 1..Len(m.order) :
                     SubSeq(m.blks[i].lead, 1, NLead(m) - 1) = SubSeq(m.blks[1].lead, 1, NLead(m) - 1)
ScalarRT(x) == /\ "ScalarRT" \in Ops /\ Room /\ Present(x) /\ NLead(obj[x]) >= 1 /\ SharedBatch(obj[x])
               /\ LET s == ToScalar(obj[x])
                      r == FromScalar(s, Signature(obj[x])) IN
                  /\ obj' = [obj EXCEPT ![x] = r]
                  /\ Step([op |-> "ScalarRT", x |-> x, layout |-> Signature(obj[x]), mid |-> Snap(s), after |-> Snap(r)])
ToScalarOp(x) == /\ "ToScalar" \in Ops /\ Room /\ Present(x) /\ NLead(obj[x]) >= 1 /\ SharedBatch(obj[x])
                 /\ LET s == ToScalar(obj[x]) IN
                    /\ obj' = [obj EXCEPT ![x] = s]
                    /\ Step([op |-> "ToScalar", x |-> x, after |-> Snap(s)])
ImagesRT(x) == /\ "ImagesRT" \in Ops /\ Room /\ Present(x) /\ NLead(obj[x]) >= 1
               /\ LET imgs == ToImages(obj[x])
                      r == FromImages(imgs, obj[x].d, obj[x].torus, 1) IN
                  /\ obj' = [obj EXCEPT ![x] = r]
                  /\ Step([op |-> "ImagesRT", x |-> x, nimgs |-> Len(imgs), img1 |-> imgs[1], after |-> Snap(r)])

(* ---------------- arithmetic and comparison (C12) ---------------- *)
SameShapes(a, b) == \A t \in TypeSet(a) \cap TypeSet(b) : Blk(a, t).lead = Blk(b, t).lead
BinOp(op, x, y) == /\ op \in Ops /\ Room /\ x # y /\ Present(x) /\ Present(y) /\ obj[x].d = obj[y].d /\ obj[x].torus = obj[y].torus
                   /\ SameShapes(obj[x], obj[y])
                   /\ IF CanCombine(obj[x], obj[y])
                      THEN LET r == IF op = "Add" THEN AddMI(obj[x], obj[y]) ELSE SubMI(obj[x], obj[y]) IN
                           /\ obj' = [obj EXCEPT ![x] = r]
                           /\ Step([op |-> op, x |-> x, y |-> y, rejected |-> FALSE, after |-> Snap(r)])
                      ELSE /\ UNCHANGED obj                              \* different type sets: rejected, not combined
                           /\ Step([op |-> op, x |-> x, y |-> y, rejected |-> TRUE, after |-> Snap(obj[x])])
ScaleOp(x, c, how) == /\ "Scale" \in Ops /\ Room /\ Present(x)
                      /\ LET r == ScaleMI(obj[x], c) IN
                         /\ obj' = [obj EXCEPT ![x] = r]
                         /\ Step([op |-> how, x |-> x, c |-> c, after |-> Snap(r)])        \* how: "Mul" (m*c) or "DivInv" (m/(1/c))
EqTest(x, y) == /\ "Eq" \in Ops /\ Room /\ Present(x) /\ Present(y)
                /\ SameShapes(obj[x], obj[y])
                /\ UNCHANGED obj
                /\ Step([op |-> "Eq", x |-> x, y |-> y, result |-> EqMI(obj[x], obj[y]), after |-> Snap(obj[x])])

(* ---------------- per-image operations (C14) ---------------- *)
ActOp(x, g) == /\ "Act" \in Ops /\ Room /\ Present(x)
               /\ LET r == ActMI(g, obj[x]) IN
                  /\ obj' = [obj EXCEPT ![x] = r]
                  /\ Step([op |-> "Act", x |-> x, mat |-> Mat(g), after |-> Snap(r)])
NormOp(x) == /\ "NormSq" \in Ops /\ Room /\ Present(x) /\ NLead(obj[x]) >= 1 /\ SharedBatch(obj[x])
             /\ LET r == NormSqMI(obj[x]) IN
                /\ obj' = [obj EXCEPT ![x] = r]
                /\ Step([op |-> "NormSq", x |-> x, after |-> Snap(r)])

AvgPoolOp(x, q) == /\ "AvgPool" \in Ops /\ Room /\ Present(x)
                   /\ D >= 2                              \* the single-image operation is a 2D/3D convolution
                   /\ \A j \in 1..D : obj[x].dims[j] % q = 0 /\ obj[x].dims[j] >= q
                   /\ LET r == AvgPoolNumMI(obj[x], q) IN
                      /\ obj' = [obj EXCEPT ![x] = r]
                      /\ Step([op |-> "AvgPool", x |-> x, q |-> q, den |-> Pow(q, D), after |-> Snap(r)])
ComponentOp(x, c0, n, T) == /\ "Component" \in Ops /\ Room /\ Present(x) /\ NLead(obj[x]) \in {1, 2}
                           /\ (NLead(obj[x]) = 2 => SameFirst(obj[x]))
                           /\ \A i \in 1..Len(obj[x].order) : obj[x].blks[i].lead[NLead(obj[x])] % T = 0
                           /\ c0 + n <= CompTotal(obj[x], T)
                           /\ LET r == IF NLead(obj[x]) = 1 THEN GetComponents(obj[x], c0, n, T) ELSE BatchGetComponents(obj[x], c0, n, T) IN
                              /\ obj' = [obj EXCEPT ![x] = r]
                              /\ Step([op |-> "Component", x |-> x, comp |-> c0, n |-> n, T |-> T, batched |-> (NLead(obj[x]) = 2), after |-> Snap(r)])

(* ---------------- losses (C18): a query, the store is unchanged ---------------- *)
LossShapes(a, b) == /\ NLead(a) = 2 /\ NLead(b) = 2 /\ TypeSet(a) = TypeSet(b) /\ SameShapes(a, b)
                    /\ \A i \in 1..Len(a.order) : a.blks[i].lead[1] = a.blks[1].lead[1]
LossOp(x, y, S) == /\ "Loss" \in Ops /\ Room /\ x # y /\ Present(x) /\ Present(y) /\ LossShapes(obj[x], obj[y])
                   /\ \A i \in 1..Len(obj[x].order) : obj[x].blks[i].lead[2] % S = 0
                   /\ UNCHANGED obj
                   /\ Step([op |-> "Loss", x |-> x, y |-> y, S |-> S, npix |-> NPixMI(obj[x]), batch |-> Batch(obj[x]),
                            smse |-> SmseNum(obj[x], obj[y]), steps |-> StepNum(obj[x], obj[y], S),
                            norm |-> NormTerms(obj[x], obj[y]), after |-> Snap(obj[x])])

Next ==
  \/ \E x \in Names, y \in Names, S \in {1, 2} : LossOp(x, y, S)
  \/ \E x \in Names, q \in {2, 3} : AvgPoolOp(x, q)
  \/ \E x \in Names, c0 \in 0..7, n \in 1..3, T \in {1, 2} : ComponentOp(x, c0, n, T)
  \/ \E x \in Names, ord \in Orders : New(x, ord) \/ BuildAppend(x, ord)
  \/ \E x \in Names, y \in Names : CopyTo(x, y) \/ EqTest(x, y) \/ BinOp("Add", x, y) \/ BinOp("Sub", x, y)
  \/ \E x \in Names, y \in Names : \E pi \in Perms(Len(obj[x].order)), i \in 1..3, j \in 1..3 : Rebuild(x, y, pi, i, j)
  \/ \E x \in Names, how \in {"jit", "vmap", "flatten"} : RoundTrip(x, how)
  \/ \E x \in Names : ViaVector(x) \/ ScalarRT(x) \/ ToScalarOp(x) \/ ImagesRT(x) \/ NormOp(x)
  \/ \E x \in Names, y \in Names, ax \in 1..3 : Concat(x, y, ax) \/ Split(x, y, ax)
  \/ \E x \in Names, ax \in 1..3, size \in {2, 3} : ExpandOp(x, ax, size)
  \/ \E x \in Names, a1 \in 1..2, how \in {"CombineAxes", "MergeAxes"} : CombineOp(x, a1, how)
  \/ \E x \in Names, n \in {2, 3} : PmapOp(x, n)
  \/ \E x \in Names, idxs \in {<<0>>, <<1, 0>>, <<1, 1, 0>>} : SubsetOp(x, idxs)
  \/ \E x \in Names, c \in {2, -3}, how \in {"Mul", "DivInv"} : ScaleOp(x, c, how)
  \/ \E x \in Names, g \in B(D) : ActOp(x, g)

(* ---------------- properties of the design ---------------- *)
(* C12: the result of a+b / a-b is defined by type and does not depend on either operand's storage order *)
Reorders(m) == {[m EXCEPT !.order = [j \in 1..Len(m.order) |-> m.order[pi[j]]],
                          !.blks  = [j \in 1..Len(m.order) |-> m.blks[pi[j]]]] : pi \in Perms(Len(m.order))}
ArithByType ==
  \A x \in Names, y \in Names :
     (Present(x) /\ Present(y) /\ obj[x].d = obj[y].d /\ obj[x].torus = obj[y].torus /\ SameShapes(obj[x], obj[y])
        /\ CanCombine(obj[x], obj[y])) =>
       /\ \A t \in TypeSet(obj[x]) : \A n \in 1..Len(Blk(obj[x], t).val) :
             Blk(AddMI(obj[x], obj[y]), t).val[n] = Blk(obj[x], t).val[n] + Blk(obj[y], t).val[n]
       /\ \A a2 \in Reorders(obj[x]), b2 \in Reorders(obj[y]) :
             /\ EqMI(AddMI(a2, b2), AddMI(obj[x], obj[y])) /\ EqMI(SubMI(a2, b2), SubMI(obj[x], obj[y]))
             /\ EqMI(a2, obj[x])
(* C13: the inverse pairs are identities on every reachable object *)
RoundTripLaws ==
  \A x \in Names : Present(x) =>
    LET m == obj[x] IN
    /\ FromVector(ToVector(m), m) = m
    /\ EqMI(PytreeMI(m), m) /\ PytreeMI(m).d = m.d /\ PytreeMI(m).torus = m.torus /\ PytreeMI(m).dims = m.dims
    /\ ((NLead(m) >= 1 /\ SharedBatch(m)) => FromScalar(ToScalar(m), Signature(m)) = m)
    /\ (NLead(m) = 1 => FromImages(ToImages(m), m.d, m.torus, 1) = m)
    /\ \A ax \in 1..NLead(m), size \in {2, 3} :
          (\A i \in 1..Len(m.order) : m.blks[i].lead[ax] % size = 0) => Combine(Expand(m, ax, size), ax, ax + 1) = m
    /\ \A n \in {2, 3} : (NLead(m) >= 1 /\ SameFirst(m) /\ m.blks[1].lead[1] % n = 0) => Combine(ReshapePmap(m, n), 1, 2) = m
ConcatSplitLaw ==
  \A x \in Names, y \in Names, ax \in 1..3 :
     (x # y /\ Present(x) /\ Present(y) /\ Compatible(obj[x], obj[y], ax)) =>
        LET sig == [i \in 1..Len(obj[y].order) |-> <<obj[y].order[i], obj[y].blks[i].lead[ax]>>]
            r   == ConcatInverse(ConcatMI(obj[x], obj[y], ax), sig, ax)
        IN EqMI(r[1], obj[x]) /\ EqMI(r[2], obj[y])

(* C18: pairing by type, definition consistency, zero iff equal, non-negativity, symmetry-invariance *)
LossLaws ==
  \A x \in Names, y \in Names :
    (x # y /\ Present(x) /\ Present(y) /\ LossShapes(obj[x], obj[y]) /\ hist[Len(hist)].op # "Loss") =>
      LET a == obj[x]  b == obj[y]  S == 2 IN
      \* every pair of storage orders is itself a reachable state: comparing with the canonical (sorted) re-ordering of
      \* both arguments in every state establishes independence of the storage order
      /\ LET a2 == PytreeMI(a)  b2 == PytreeMI(b) IN
            /\ SmseNum(a2, b2) = SmseNum(a, b) /\ SmseNum(a, b2) = SmseNum(a, b)
            /\ ((\A i \in 1..Len(a.order) : a.blks[i].lead[2] % S = 0) => StepNum(a2, b2, S) = StepNum(a, b, S))
            /\ \A e \in 1..Batch(a) : BagOf(NormTerms(a2, b2)[e]) = BagOf(NormTerms(a, b)[e])
      /\ \A e \in 1..Batch(a) : SmseNum(a, b)[e] >= 0 /\ SmseNum(a, a)[e] = 0
      /\ ((\A e \in 1..Batch(a) : SmseNum(a, b)[e] = 0) <=> EqMI(a, b))
      /\ ((\A i \in 1..Len(a.order) : a.blks[i].lead[2] % S = 0) => RowSums(StepNum(a, b, S)) = SmseNum(a, b))     \* sum of steps = total
      /\ \A e \in 1..Batch(a) : SumSeq([n \in 1..Len(NormTerms(a, b)[e]) |-> NormTerms(a, b)[e][n][1]]) = SmseNum(a, b)[e]
      \* the symmetry law does not involve the storage order: evaluated once per content (canonically ordered states)
      /\ \A g \in (IF a.order = PytreeMI(a).order /\ b.order = PytreeMI(b).order THEN LossGroup ELSE {}) :
            LET ga == ActMI(g, a)  gb == ActMI(g, b) IN
            /\ SmseNum(ga, gb) = SmseNum(a, b)
            /\ (\A i \in 1..Len(a.order) : a.blks[i].lead[2] % S = 0) => StepNum(ga, gb, S) = StepNum(a, b, S)
            /\ \A e \in 1..Batch(a) : BagOf(NormTerms(ga, gb)[e]) = BagOf(NormTerms(a, b)[e])

Emit == (IF hist = <<>> THEN FALSE ELSE (hist[Len(hist)].op \in EmitOps \/ Len(hist) = EmitDepth)) => PrintT(<<"CASE", ToJson([hist |-> hist])>>)

(* symmetry reduction for exhaustive runs: objects are created in name order ("a" before "b" before "c") *)
NameOrd(x) == CASE x = "a" -> 1 [] x = "b" -> 2 [] x = "c" -> 3 [] OTHER -> 4
InOrder == \A x \in Names, y \in Names : (Present(y) /\ NameOrd(x) < NameOrd(y)) => Present(x)
=============================================================================
