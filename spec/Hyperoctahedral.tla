--------------------------- MODULE Hyperoctahedral ---------------------------
(***************************************************************************)
(* Vocabulary: the hyperoctahedral group B_D of signed permutation         *)
(* matrices and its action on pixel coordinates.                           *)
(*                                                                         *)
(* A group element is a record [p |-> <<..>>, s |-> <<..>>] of two         *)
(* sequences of length D.  Its matrix has, in row i, the single non-zero   *)
(* entry s[i] in column p[i]:  Mat(g)[i][j] = IF j = p[i] THEN s[i] ELSE 0.*)
(* This is exactly how ginjax represents `gg` (a D x D numpy matrix); the  *)
(* harness converts with Mat / its inverse.                                *)
(*                                                                         *)
(* Conventions shared by every module and every JSON exchange:             *)
(*   - axes and tensor index *positions* are 1-based (TLA+ sequences),     *)
(*   - pixel coordinates and tensor index *values* are 0-based,            *)
(*   - images are centred: the action on pixels is  y = g.(x - c) + c'     *)
(*     with c = (dims-1)/2; doubled coordinates keep half-integers exact.  *)
(***************************************************************************)
EXTENDS Integers, Sequences, FiniteSets, TLC

(* TLC builds function constructors lazily and re-evaluates their body at every application; value arrays that are read many
   times are therefore forced once.  Semantically Eager(v) = v. *)
Eager(v) == TLCEval(v)

RECURSIVE ProdSeq(_), SumSeq(_)
ProdSeq(s) == IF s = <<>> THEN 1 ELSE Head(s) * ProdSeq(Tail(s))
SumSeq(s)  == IF s = <<>> THEN 0 ELSE Head(s) + SumSeq(Tail(s))

SubSeqWhereL(s, P(_)) == LET F[i \in 0..Len(s)] == IF i = 0 THEN <<>> ELSE IF P(s[i]) THEN Append(F[i - 1], s[i]) ELSE F[i - 1]
                         IN F[Len(s)]                                        \* subsequence of the elements satisfying P

Dim(g)   == Len(g.p)
Perms(D) == {f \in [1..D -> 1..D] : \A i, j \in 1..D : i # j => f[i] # f[j]}
Signs(D) == [1..D -> {-1, 1}]
B(D)     == [p : Perms(D), s : Signs(D)]                 \* the full group, |B(D)| = 2^D * D!

Id(D)       == [p |-> [i \in 1..D |-> i], s |-> [i \in 1..D |-> 1]]
Mat(g)      == [i \in 1..Dim(g) |-> [j \in 1..Dim(g) |-> IF j = g.p[i] THEN g.s[i] ELSE 0]]
Apply(g, v) == [i \in 1..Dim(g) |-> g.s[i] * v[g.p[i]]]                           \* the vector g.v
Mul(g, h)   == [p |-> [i \in 1..Dim(g) |-> h.p[g.p[i]]],                         \* matrix product g h
                s |-> [i \in 1..Dim(g) |-> g.s[i] * h.s[g.p[i]]]]
Inv(g)      == LET q == [j \in 1..Dim(g) |-> CHOOSE i \in 1..Dim(g) : g.p[i] = j]
               IN  [p |-> q, s |-> [j \in 1..Dim(g) |-> g.s[q[j]]]]
Transp(g)   == Inv(g)                                                             \* orthogonal matrices
Inversions(p) == Cardinality({ij \in (1..Len(p)) \X (1..Len(p)) : ij[1] < ij[2] /\ p[ij[1]] > p[ij[2]]})
Det(g)      == (IF Inversions(g.p) % 2 = 0 THEN 1 ELSE -1) * ProdSeq([i \in 1..Dim(g) |-> g.s[i]])
Tr(g)       == SumSeq([i \in 1..Dim(g) |-> IF g.p[i] = i THEN g.s[i] ELSE 0])
MatMul(A, C) == [i \in 1..Len(A) |-> [j \in 1..Len(A) |->
                   SumSeq([l \in 1..Len(A) |-> A[i][l] * C[l][j]])]]

(* transport of per-axis data (extents, torus flags, dilations, paddings, filter extents) *)
OutDims(g, dims) == [i \in 1..Dim(g) |-> dims[g.p[i]]]

(* y = g.(x - c_in) + c_out for a pixel x of a box with extents dims; x and y are 0-based *)
MovePix(g, dims, x) ==
  LET od == OutDims(g, dims)
      cy == Apply(g, [i \in 1..Dim(g) |-> 2 * x[i] - (dims[i] - 1)])
  IN  [i \in 1..Dim(g) |-> (cy[i] + (od[i] - 1)) \div 2]

Pix(dims) == {x \in [1..Len(dims) -> 0..9] : \A i \in 1..Len(dims) : x[i] < dims[i]}

(* tensor components: (g.T)_J = prod_a s[J_a] * T_I  with I_a = p[J_a];  J, I are 0-based values *)
SrcIdx(g, J)  == [a \in 1..Len(J) |-> g.p[J[a] + 1] - 1]
SignIdx(g, J) == ProdSeq([a \in 1..Len(J) |-> g.s[J[a] + 1]])

(* closure of a set of generators under the product (used to build subgroups) *)
RECURSIVE Closure(_)
Closure(S) == LET T == S \cup {Mul(a, b) : a \in S, b \in S} IN IF T = S THEN S ELSE Closure(T)
IsGroup(G, D) == /\ Id(D) \in G
                 /\ \A a \in G, b \in G : Mul(a, b) \in G
                 /\ \A a \in G : Inv(a) \in G

Rotations(D) == {g \in B(D) : Det(g) = 1}
Flips(D)     == {g \in B(D) : g.p = Id(D).p}
Trivial(D)   == {Id(D)}

(* ---------------- spec-level theorems, evaluated by TLC in MC_GroupAction ---------------- *)
GroupAxioms(D) ==
  /\ Cardinality(B(D)) = ProdSeq([i \in 1..D |-> 2 * i])
  /\ \A g \in B(D) : /\ Mul(g, Id(D)) = g /\ Mul(Id(D), g) = g
                     /\ Mul(g, Inv(g)) = Id(D) /\ Mul(Inv(g), g) = Id(D)
                     /\ Det(g) \in {-1, 1}
                     /\ \A i \in 1..D : Mat(Inv(g))[i] = [j \in 1..D |-> Mat(g)[j][i]]   \* inverse = transpose
PairLaws(g, h) ==
  /\ Mat(Mul(g, h)) = MatMul(Mat(g), Mat(h))
  /\ Det(Mul(g, h)) = Det(g) * Det(h)
  /\ Inv(Mul(g, h)) = Mul(Inv(h), Inv(g))
MoveLaws(g, h, dims) ==
  LET D == Dim(g) IN
  /\ OutDims(Mul(g, h), dims) = OutDims(g, OutDims(h, dims))
  /\ \A x \in Pix(dims) :
        /\ MovePix(g, dims, x) \in Pix(OutDims(g, dims))
        /\ MovePix(Inv(g), OutDims(g, dims), MovePix(g, dims, x)) = x
        /\ MovePix(Mul(g, h), dims, x) = MovePix(g, OutDims(h, dims), MovePix(h, dims, x))
  /\ Cardinality({MovePix(g, dims, x) : x \in Pix(dims)}) = ProdSeq(dims)              \* bijection
=============================================================================
