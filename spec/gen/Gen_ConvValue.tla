--------------------------- MODULE Gen_ConvValue ---------------------------
(***************************************************************************)
(* C04 / C01, value level.  The harness writes random small-integer image  *)
(* batches A[b][ci], filter banks F[co][ci] and option records to a JSON    *)
(* file (IOEnv.CONV_INPUT); TLC evaluates Convolution!Convolve and          *)
(* Convolution!ConvContract on exactly those inputs and prints the expected *)
(* arrays, which the harness compares with geom.convolve / convolve_ravel / *)
(* convolve_contract / GeometricImage.convolve_with.                        *)
(* For cases that carry a group element (unit stride) TLC also checks the   *)
(* value-level equivariance law  (g.A)*(g.C) = g.(A*C)  in the spec.        *)
(***************************************************************************)
EXTENDS Convolution, TLC, Json, IOUtils

Cases == JsonDeserialize(IOEnv.CONV_INPUT).cases

VARIABLE st
Init == st = [kind |-> "init"]
(* two-level fan-out: a one-level star (all cases successors of the initial state) is expanded by a single TLC worker *)
NSh == 16
PickShard == st.kind = "init" /\ \E s \in 0..(NSh - 1) : st' = [kind |-> "shard", s |-> s]
Pick == st.kind = "shard" /\ \E n \in 1..Len(Cases) : n % NSh = st.s /\ st' = [kind |-> "case", n |-> n]
Next == PickShard \/ Pick

ActAll(g, X) == Eager([b \in 1..Len(X) |-> Eager([c \in 1..Len(X[b]) |-> Act(g, X[b][c])])])
Vals(X)      == [b \in 1..Len(X) |-> [c \in 1..Len(X[b]) |-> X[b][c].val]]

EquivLaw(cs) ==
  LET c == cs.cfg  g == cs.g
      lhs == Convolve(CfgG(g, c), ActAll(g, cs.A), ActAll(g, cs.F))
      rhs == ActAll(g, Convolve(c, cs.A, cs.F))
  IN lhs = rhs

Laws == (st.kind = "case" /\ Cases[st.n].hasg) => EquivLaw(Cases[st.n])

Emit == st.kind = "case" =>
   LET cs == Cases[st.n]
       r  == Convolve(cs.cfg, cs.A, cs.F)
   IN PrintT(<<"CASE", ToJson([n |-> st.n, out |-> Out(cs.cfg), k |-> r[1][1].k, p |-> r[1][1].p,
                               conv |-> Vals(r),
                               cc |-> IF cs.cc THEN Vals(ConvContract(cs.cfg, cs.A, cs.F)) ELSE <<>>])>>)
=============================================================================
