----------------------------- MODULE Gen_Pooling -----------------------------
(* C08 pooling part: images from the harness (IOEnv.POOL_INPUT); PoolLaws for the whole group; expected results emitted. *)
EXTENDS Pooling, TLC, Json, IOUtils
Cases == JsonDeserialize(IOEnv.POOL_INPUT).cases
VARIABLE st
Init == st = [kind |-> "init"]
(* two-level fan-out: a one-level star (all cases successors of the initial state) is expanded by a single TLC worker *)
NSh == 16
PickShard == st.kind = "init" /\ \E s \in 0..(NSh - 1) : st' = [kind |-> "shard", s |-> s]
Pick == st.kind = "shard" /\ \E n \in 1..Len(Cases) : n % NSh = st.s /\ st' = [kind |-> "case", n |-> n]
Next == PickShard \/ Pick
Laws == st.kind = "case" => PoolLaws(Cases[st.n].img, Cases[st.n].q, B(Len(Cases[st.n].img.dims)))
Emit == st.kind = "case" =>
  LET A == Cases[st.n].img  q == Cases[st.n].q IN
  PrintT(<<"CASE", ToJson([n |-> st.n, unique |-> UniqueMax(A, q), avgnum |-> AvgPoolNum(A, q).val, den |-> Pow(q, Len(A.dims)),
                           pooled_dims |-> AvgPoolNum(A, q).dims, unpool |-> Unpool(A, q).val, unpool_dims |-> Unpool(A, q).dims,
                           maxpool |-> IF UniqueMax(A, q) THEN MaxPoolNorm(A, q).val ELSE <<>>])>>)
=============================================================================
