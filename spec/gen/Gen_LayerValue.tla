--------------------------- MODULE Gen_LayerValue ---------------------------
(***************************************************************************)
(* C11 / C06, value level.  Cases come from the harness (IOEnv.LAYER_INPUT):*)
(* configuration, integer input blocks, integer weights and biases, the     *)
(* filter bank READ FROM THE CODE (scale "one": integer entries), a bias    *)
(* mode and a list of group elements of the bank's group.                   *)
(* Laws:  every supplied filter is fixed by every listed element            *)
(*        (BankInvariant); the layer commutes with every listed element,    *)
(*        LayerOut(g.x) = g.LayerOut(x), block by block (C06 in the spec).  *)
(* Emit:  the output numerators (denominator npix) per target block.        *)
(***************************************************************************)
EXTENDS ConvContractLayer, TLC, Json, IOUtils

Cases == JsonDeserialize(IOEnv.LAYER_INPUT).cases
VARIABLE st
Init == st = [kind |-> "init"]
(* two-level fan-out: a one-level star (all cases successors of the initial state) is expanded by a single TLC worker *)
NSh == 16
PickShard == st.kind = "init" /\ \E s \in 0..(NSh - 1) : st' = [kind |-> "shard", s |-> s]
Pick == st.kind = "shard" /\ \E n \in 1..Len(Cases) : n % NSh = st.s /\ st' = [kind |-> "case", n |-> n]
Next == PickShard \/ Pick

WOf(cs) == [pr \in {<<cs.W[i].si, cs.W[i].ti>> : i \in 1..Len(cs.W)} |->
              cs.W[CHOOSE i \in 1..Len(cs.W) : <<cs.W[i].si, cs.W[i].ti>> = pr].w]
OutTargets(cs) == SubSeqWhereL([ti \in 1..Len(cs.tgt) |-> ti],
                               LAMBDA ti : \E si \in 1..Len(cs.x.types) : HasBank(cs.bank, FType(cs.x.types[si], cs.tgt[ti][1])))
LayerOut(c, cs, x) ==
  LET W == WOf(cs)  tis == OutTargets(cs) IN
  Eager([j \in 1..Len(tis) |-> Eager([o \in 1..cs.tgt[tis[j]][2] |->
      LayerOutChan(c, x, cs.tgt[tis[j]][1], cs.tgt[tis[j]][2], W, cs.b, cs.bank, cs.mode, tis[j], o)])])

ActX(g, x) == [x EXCEPT !.blks = Eager([i \in 1..Len(x.blks) |-> Eager([c \in 1..Len(x.blks[i]) |-> Act(g, x.blks[i][c])])])]
BankInvariant(cs) == \A g \in {cs.gs[i] : i \in 1..Len(cs.gs)} :
                        \A i \in 1..Len(cs.bank.filts) : \A f \in 1..Len(cs.bank.filts[i]) :
                           Act(g, cs.bank.filts[i][f]) = cs.bank.filts[i][f]
Equivariant(cs) == \A g \in {cs.gs[i] : i \in 1..Len(cs.gs)} :
                      LET lhs == LayerOut(CfgG(g, cs.cfg), cs, ActX(g, cs.x))
                          rhs == LayerOut(cs.cfg, cs, cs.x)
                      IN \A j \in 1..Len(rhs) : \A o \in 1..Len(rhs[j]) : lhs[j][o] = Act(g, rhs[j][o])
Laws == st.kind = "case" => BankInvariant(Cases[st.n]) /\ Equivariant(Cases[st.n])

Emit == st.kind = "case" =>
  LET cs == Cases[st.n]  r == LayerOut(cs.cfg, cs, cs.x)  tis == OutTargets(cs) IN
  PrintT(<<"CASE", ToJson([n |-> st.n, types |-> [j \in 1..Len(tis) |-> cs.tgt[tis[j]][1]],
                           dims |-> Out(cs.cfg), npix |-> ProdSeq(Out(cs.cfg)),
                           vals |-> [j \in 1..Len(r) |-> [o \in 1..Len(r[j]) |-> r[j][o].val]]])>>)
=============================================================================
