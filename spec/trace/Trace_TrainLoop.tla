-------------------------- MODULE Trace_TrainLoop --------------------------
(***************************************************************************)
(* Trace validation of recorded ml.train / get_batches / stop-condition    *)
(* executions against TrainLoop.tla.  The trace file (IOEnv.TRACE_FILE)    *)
(* holds many traces; each is consumed event by event by the machine's own *)
(* actions with arguments bound from the logged fields.  Verdicts are      *)
(* total and printed: <<"ACCEPT", tid>> when every event was consumed,     *)
(* <<"REJECT", tid, l, clause>> naming the first guard the l-th event      *)
(* violates.                                                               *)
(***************************************************************************)
EXTENDS TrainLoop, TLC, Json, IOUtils

Traces == JsonDeserialize(IOEnv.TRACE_FILE).traces

VARIABLES tid, l
DummyCfg == [kind |-> "none"]

Init == tid = 0 /\ l = 0 /\ TInit(DummyCfg)
Pick == /\ tid = 0
        /\ \E t \in 1..Len(Traces) : tid' = t /\ l' = 1 /\ TReset(Traces[t].cfg)

Skipped(e) == Focus = "stop" /\ e.ev \in {"MakeBatches", "ValBatches"}   \* projection on the stop events
GuardsOf(e) == CASE Skipped(e)           -> <<>>
                 [] e.ev = "StopCheck"   -> StopCheckGuards(e)
                 [] e.ev = "MakeBatches" -> MakeBatchesGuards(e)
                 [] e.ev = "ValBatches"  -> ValBatchesGuards(e)
                 [] e.ev = "TrainStep"   -> TrainStepGuards(e)
                 [] e.ev = "Return"      -> ReturnGuards(e)
                 [] e.ev = "EvalBatches" -> EvalBatchesGuards(e)
                 [] e.ev = "EvalStep"    -> EvalStepGuards(e)
                 [] e.ev = "EvalReturn"  -> EvalReturnGuards(e)
                 [] OTHER -> <<<<"event has no counterpart in the specification (run cut off: training did not stop)", FALSE>>>>

Consume == /\ tid > 0 /\ l <= Len(Traces[tid].events)
           /\ LET e == Traces[tid].events[l] IN
                CASE Skipped(e)           -> UNCHANGED tvars
                  [] e.ev = "StopCheck"   -> StopCheck(e)
                  [] e.ev = "MakeBatches" -> MakeBatches(e)
                  [] e.ev = "ValBatches"  -> ValBatches(e)
                  [] e.ev = "TrainStep"   -> TrainStep(e)
                  [] e.ev = "Return"      -> Return(e)
                  [] e.ev = "EvalBatches" -> EvalBatches(e)
                  [] e.ev = "EvalStep"    -> EvalStep(e)
                  [] e.ev = "EvalReturn"  -> EvalReturn(e)
                  [] OTHER -> FALSE
           /\ l' = l + 1 /\ tid' = tid
Next == Pick \/ Consume

Verdict ==
  tid > 0 =>
    IF l = Len(Traces[tid].events) + 1
    THEN PrintT(<<"ACCEPT", ToJson([tid |-> Traces[tid].tid])>>)
    ELSE LET gs == GuardsOf(Traces[tid].events[l]) IN
         AllTrue(gs) \/ PrintT(<<"REJECT", ToJson([tid |-> Traces[tid].tid, l |-> l, clause |-> FirstFalse(gs)])>>)

(* the design invariant must hold along every accepted prefix as well *)
Inv == (tid > 0 /\ Focus = "all") => (LoopInv /\ EvalInv)
=============================================================================
