------------------------- MODULE Trace_Architectures -------------------------
(***************************************************************************)
(* Trace validation of recorded forward passes of real models against      *)
(* Architectures.tla.  The recorder (harness-level wrappers on the layer   *)
(* classes and on MultiImage.concat / __add__ / to_scalar / from_scalar)   *)
(* logs one event per observable stage with the signature and extents      *)
(* AFTER the stage, then "Final" (ordered output signature, extents) or    *)
(* "Raised".  Silent stages (saving a skip / residual) are composed in.    *)
(***************************************************************************)
EXTENDS Architectures, TLC, Json, IOUtils

Traces == JsonDeserialize(IOEnv.TRACE_FILE).traces
VARIABLES tid, l
DummyCfg == [cls |-> "none", equiv |-> TRUE, D |-> 2, ins |-> <<>>, outs |-> <<>>, depth |-> 1, blocks |-> 0, nconv |-> 0, ndown |-> 0,
             gn |-> FALSE, preact |-> FALSE, bank |-> {}, upbank |-> {}, dims |-> <<2, 2>>]
CfgOf(t) == LET c == Traces[t].cfg IN [c EXCEPT !.bank = {c.bank[i] : i \in 1..Len(c.bank)}, !.upbank = {c.upbank[i] : i \in 1..Len(c.upbank)}]

Init == tid = 0 /\ l = 0 /\ AInit(DummyCfg)
Pick == tid = 0 /\ \E t \in 1..Len(Traces) : tid' = t /\ l' = 1 /\ AReset(CfgOf(t))

Silent(st) == st.kind \in {"PushSkip", "SaveRes"}
AtObservable == IF Finished THEN TRUE ELSE ~Silent(Stages(cfg)[pc])
KindClass(k) == IF k = "Up" THEN "Conv" ELSE k
SigSetOf(e) == {<<e.sig[i][1], e.sig[i][2]>> : i \in 1..Len(e.sig)}

AllTrue(gs) == \A i \in 1..Len(gs) : gs[i][2]
FirstFalse(gs) == IF AllTrue(gs) THEN "none" ELSE gs[CHOOSE i \in 1..Len(gs) : ~gs[i][2] /\ \A j \in 1..(i - 1) : gs[j][2]][1]

StageGuards(e) ==
  IF Finished THEN <<<<"the model ran a stage after the specification's last stage", FALSE>>>>
  ELSE LET st == Stages(cfg)[pc]  pb == StageProblem(cfg, st, cur, dims, skips, res) IN <<
     <<"stage kind (order of the layers in the forward pass)", KindClass(st.kind) = e.kind>>,
     <<"this stage cannot run according to the specification, but the model ran it", pb = "ok">>,
     <<"types and channel counts after the stage", pb = "ok" => SigSetOf(e) = StageSig(cfg, st, cur, skips, res)>>,
     <<"spatial extents after the stage", (pb = "ok" /\ e.sig # <<>>) => e.dims = StageDims(st, dims)>> >>      \* an empty multi-image has no extents
FinalGuards(e) == <<
     <<"the model returned before the specification's last stage", Finished>>,
     <<"output signature: exactly the requested reachable types, requested channels, requested ORDER",
          Finished => [i \in 1..Len(e.sig) |-> <<e.sig[i][1], e.sig[i][2]>>] = FinalSeq(cfg, cur)>>,
     <<"output spatial shape = input spatial shape", e.sig # <<>> => e.dims = cfg.dims>>,
     <<"output D / boundary flags = input's", e.same_meta>> >>
RaisedGuards(e) == <<
     <<"the model raised although the specification says the forward pass goes through",
          ~Finished /\ StageProblem(cfg, Stages(cfg)[pc], cur, dims, skips, res) # "ok">> >>
ConstructGuards(e) == <<<<"the constructor raised although the configuration is admissible", ~ArchAdmissible(cfg)>>>>
GuardsOf(e) == CASE e.kind = "Final" -> FinalGuards(e) [] e.kind = "Raised" -> RaisedGuards(e)
                 [] e.kind = "RaisedAtConstruct" -> ConstructGuards(e) [] OTHER -> StageGuards(e)

SkipSilent == /\ tid > 0 /\ ~Finished /\ Silent(Stages(cfg)[pc]) /\ AStep /\ UNCHANGED <<tid, l>>
Consume == /\ tid > 0 /\ l <= Len(Traces[tid].events)
           /\ AtObservable
           /\ LET e == Traces[tid].events[l] IN
                /\ AllTrue(GuardsOf(e))
                /\ IF e.kind \in {"Final", "Raised", "RaisedAtConstruct"} THEN UNCHANGED avars ELSE AStep
           /\ l' = l + 1 /\ tid' = tid
Next == Pick \/ SkipSilent \/ Consume

Verdict ==
  (tid > 0 /\ AtObservable) =>
    IF l = Len(Traces[tid].events) + 1
    THEN PrintT(<<"ACCEPT", ToJson([tid |-> Traces[tid].tid])>>)
    ELSE LET gs == GuardsOf(Traces[tid].events[l]) IN
         AllTrue(gs) \/ PrintT(<<"REJECT", ToJson([tid |-> Traces[tid].tid, l |-> l, clause |-> FirstFalse(gs)])>>)
AInv == tid > 0 => ArchInv
=============================================================================
