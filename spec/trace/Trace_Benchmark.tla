-------------------------- MODULE Trace_Benchmark --------------------------
(***************************************************************************)
(* Trace validation of recorded ml.benchmark executions against            *)
(* Benchmark.tla (same conventions as Trace_TrainLoop: many traces per     *)
(* file, total verdicts ACCEPT / REJECT naming the first violated guard).  *)
(***************************************************************************)
EXTENDS Benchmark, Json, IOUtils

Traces == JsonDeserialize(IOEnv.TRACE_FILE).traces

VARIABLES tid, l
DummyCfg == [kind |-> "none"]

Init == /\ tid = 0 /\ l = 0 /\ cfg = DummyCfg /\ phase = "idle" /\ i = 0 /\ j = 0 /\ k = 0 /\ calls = 0
        /\ dataId = -1 /\ dataLog = <<>> /\ hist = <<>>
Pick == /\ tid = 0
        /\ \E t \in 1..Len(Traces) : tid' = t /\ l' = 1 /\ BReset(Traces[t].cfg)

GuardsOf(e) == CASE e.ev = "GetData"  -> GetDataGuards(e)
                 [] e.ev = "RunModel" -> RunModelGuards(e)
                 [] e.ev = "Return"   -> ReturnGuards(e)
                 [] OTHER -> <<<<"event has no counterpart in the specification", FALSE>>>>

Consume == /\ tid > 0 /\ l <= Len(Traces[tid].events)
           /\ LET e == Traces[tid].events[l] IN
                CASE e.ev = "GetData"  -> GetData(e)
                  [] e.ev = "RunModel" -> RunModel(e)
                  [] e.ev = "Return"   -> Return(e)
                  [] OTHER -> FALSE
           /\ l' = l + 1 /\ tid' = tid
Next == Pick \/ Consume

Verdict ==
  tid > 0 =>
    IF l = Len(Traces[tid].events) + 1
    THEN (phase = "returned" \/ PrintT(<<"REJECT", ToJson([tid |-> Traces[tid].tid, l |-> l, clause |-> "trace ends before the table is returned"])>>))
         /\ (phase # "returned" \/ PrintT(<<"ACCEPT", ToJson([tid |-> Traces[tid].tid])>>))
    ELSE LET gs == GuardsOf(Traces[tid].events[l]) IN
         BAllTrue(gs) \/ PrintT(<<"REJECT", ToJson([tid |-> Traces[tid].tid, l |-> l, clause |-> BFirstFalse(gs)])>>)

Inv == tid > 0 => BenchInv
=============================================================================
