---------------------------- MODULE Architectures ----------------------------
(***************************************************************************)
(* Machine: the forward pass of the library's networks (U-Net, ResNet,     *)
(* dilated ResNet; equivariant and conventional mode) at the level of      *)
(* signatures -- which tensor types with how many channels flow through    *)
(* which stage, on which spatial extents.                                  *)
(*                                                                         *)
(* A constructor configuration cfg is compiled into a stage list           *)
(* Stages(cfg); the machine executes it one stage per step.  Every stage   *)
(* is enabled exactly when the code's look-ups / asserts succeed:          *)
(*   Conv     the block holds weights for the declared input types only,   *)
(*            with the declared channel counts; it emits the requested     *)
(*            target types reachable through an existing filter type       *)
(*   Norm     implemented for k <= 1 only                                  *)
(*   Pool     extents divisible by 2;  Up  doubles the extents             *)
(*   Concat   channel-concatenates the skip connection                     *)
(*   Add      residual sum: equal type sets and channel counts             *)
(* `stuck` records the first stage whose precondition fails.               *)
(* Signatures inside the network are SETS of <<type, channels>> (the       *)
(* storage order of intermediate multi-images is immaterial); the final    *)
(* output is an ordered sequence: requested types, requested order.        *)
(***************************************************************************)
EXTENDS ConvContractLayer, FiniteSets

VARIABLES cfg, pc, cur, dims, skips, res, stuck, log
avars == <<cfg, pc, cur, dims, skips, res, stuck, log>>

TypeLessA(t, u) == t[1] < u[1] \/ (t[1] = u[1] /\ t[2] < u[2])
RECURSIVE SetToSortSeq(_)
SetToSortSeq(S) == IF S = {} THEN <<>>
                   ELSE LET mn == CHOOSE t \in S : \A u \in S : u = t \/ TypeLessA(t, u) IN <<mn>> \o SetToSortSeq(S \ {mn})
TypesOf(S)  == {e[1] : e \in S}
Chan(S, t)  == (CHOOSE e \in S : e[1] = t)[2]
SeqToSet(s) == {s[i] : i \in 1..Len(s)}
Pow2(n)     == Pow(2, n)

(* ---- static description of a model ---- *)
MidTypes(c)    == IF c.equiv THEN TypesOf(SeqToSet(c.ins)) \cup TypesOf(SeqToSet(c.outs)) ELSE {<<0, 0>>}
Mid(c, ch)     == {<<t, ch>> : t \in MidTypes(c)}
ScalarCount(c, sig) == SumSeq([i \in 1..Len(sig) |-> sig[i][2] * Pow(c.D, sig[i][1][1])])
InSet(c)       == IF c.equiv THEN SeqToSet(c.ins)  ELSE {<<<<0, 0>>, ScalarCount(c, c.ins)>>}
OutSet(c)      == IF c.equiv THEN SeqToSet(c.outs) ELSE {<<<<0, 0>>, ScalarCount(c, c.outs)>>}

ConvStage(din, dout, bankName) == [kind |-> "Conv", din |-> din, dout |-> dout, bank |-> bankName]
Block(din, dout, gn, act, pre) ==           \* ConvBlock in either activation order
  IF pre THEN (IF gn THEN <<[kind |-> "Norm"]>> ELSE <<>>) \o (IF act THEN <<[kind |-> "Act"]>> ELSE <<>>) \o <<ConvStage(din, dout, "conv")>>
  ELSE <<ConvStage(din, dout, "conv")>> \o (IF gn THEN <<[kind |-> "Norm"]>> ELSE <<>>) \o (IF act THEN <<[kind |-> "Act"]>> ELSE <<>>)
RECURSIVE Cat(_)
Cat(ss) == IF ss = <<>> THEN <<>> ELSE Head(ss) \o Cat(Tail(ss))

UNetStages(c) ==
  LET d == c.depth
      emb == Cat([i \in 1..c.nconv |-> Block(IF i = 1 THEN InSet(c) ELSE Mid(c, d), Mid(c, d), c.gn, TRUE, FALSE)])
      down == Cat([lv \in 1..c.ndown |->
                 <<[kind |-> "PushSkip"], [kind |-> "Pool"]>> \o
                 Cat([i \in 1..c.nconv |-> Block(IF i = 1 THEN Mid(c, d * Pow2(lv - 1)) ELSE Mid(c, d * Pow2(lv)), Mid(c, d * Pow2(lv)), c.gn, TRUE, FALSE)])])
      up == Cat([j \in 1..c.ndown |->
                 LET u == c.ndown - j IN               \* u = ndown-1 .. 0
                 <<[kind |-> "Up", din |-> Mid(c, d * Pow2(u + 1)), dout |-> Mid(c, d * Pow2(u)), bank |-> "up"], [kind |-> "ConcatSkip"]>> \o
                 Cat([i \in 1..c.nconv |-> Block(IF i = 1 THEN Mid(c, d * Pow2(u + 1)) ELSE Mid(c, d * Pow2(u)), Mid(c, d * Pow2(u)), c.gn, TRUE, FALSE)])])
  IN emb \o down \o up \o <<ConvStage(Mid(c, d), OutSet(c), "conv")>>

ResStages(c, perBlock) ==                     \* perBlock = number of conv blocks inside a residual block
  LET d == c.depth  m == Mid(c, d) IN
  Block(InSet(c), m, FALSE, TRUE, FALSE) \o Block(m, m, FALSE, TRUE, FALSE)
  \o Cat([b \in 1..c.blocks |-> <<[kind |-> "SaveRes"]>> \o Cat([i \in 1..perBlock |-> Block(m, m, c.gn, TRUE, c.preact)]) \o <<[kind |-> "AddRes"]>>])
  \o Block(m, m, FALSE, TRUE, FALSE) \o Block(m, OutSet(c), FALSE, FALSE, FALSE)

Stages(c) ==
  (IF c.equiv THEN <<>> ELSE <<[kind |-> "ToScalar"]>>)
  \o (CASE c.cls = "UNet" -> UNetStages(c)
        [] c.cls = "ResNet" -> ResStages(c, c.nconv)
        [] c.cls = "DilResNet" -> ResStages([c EXCEPT !.preact = FALSE], 7))
  \o (IF c.equiv THEN <<>> ELSE <<[kind |-> "FromScalar"]>>)

BankOfStage(c, st) == IF ~c.equiv THEN {<<0, 0>>} ELSE IF st.bank = "up" THEN c.upbank ELSE c.bank

(* ---- one stage: new signature, or the reason it cannot run ---- *)
(* an input block is read only if some declared target has a filter type for it in the bank: the layer keeps an EMPTY weight table
   for a declared input type that feeds nothing and skips the block, so a channel count that differs from the declared one is
   harmless there (it does matter, and raises, as soon as one weight block exists) *)
Feeds(c, st, t) == \E e \in st.dout : FType(t, e[1]) \in BankOfStage(c, st)
ConvProblem(c, st, S) ==
  IF ~(TypesOf(S) \subseteq TypesOf(st.din)) THEN "conv: the input holds a type the layer has no weights for"
  ELSE IF \E t \in TypesOf(S) : Feeds(c, st, t) /\ Chan(S, t) # Chan(st.din, t) THEN "conv: channel count differs from the declared input signature"
  ELSE "ok"
ConvResult(c, st, S) == {e \in st.dout : Reachable(TypesOf(S), e[1], BankOfStage(c, st))}

ConcatSets(A, C) == {<<t, (IF t \in TypesOf(A) THEN Chan(A, t) ELSE 0) + (IF t \in TypesOf(C) THEN Chan(C, t) ELSE 0)>> :
                       t \in TypesOf(A) \cup TypesOf(C)}

StageProblem(c, st, S, dm, sk, rs) ==
  CASE st.kind \in {"Conv", "Up"} -> ConvProblem(c, st, S)
    [] st.kind = "Norm" -> IF c.equiv /\ \E t \in TypesOf(S) : t[1] > 1 THEN "norm: not implemented for k > 1" ELSE "ok"
    [] st.kind = "Pool" -> IF \E j \in 1..Len(dm) : dm[j] % 2 # 0 THEN "pool: extent not divisible by 2" ELSE "ok"
    [] st.kind = "AddRes" -> IF S # rs THEN "residual sum: operands hold different types or channel counts" ELSE "ok"
    [] OTHER -> "ok"
StageSig(c, st, S, sk, rs) ==
  CASE st.kind \in {"Conv", "Up"} -> ConvResult(c, st, S)
    [] st.kind = "ConcatSkip" -> ConcatSets(S, Head(sk))
    [] st.kind = "ToScalar" -> InSet(c)
    [] st.kind = "FromScalar" -> SeqToSet(c.outs)
    [] OTHER -> S
StageDims(st, dm) == CASE st.kind = "Pool" -> [j \in 1..Len(dm) |-> dm[j] \div 2]
                       [] st.kind = "Up"   -> [j \in 1..Len(dm) |-> dm[j] * 2]
                       [] OTHER -> dm

AInit(c) == /\ cfg = c /\ pc = 1 /\ cur = SeqToSet(c.ins) /\ dims = c.dims /\ skips = <<>> /\ res = {} /\ stuck = "" /\ log = <<>>
AReset(c) == /\ cfg' = c /\ pc' = 1 /\ cur' = SeqToSet(c.ins) /\ dims' = c.dims /\ skips' = <<>> /\ res' = {} /\ stuck' = "" /\ log' = <<>>

Finished == pc > Len(Stages(cfg))
AStep ==
  /\ stuck = "" /\ ~Finished
  /\ LET st == Stages(cfg)[pc]
         pb == StageProblem(cfg, st, cur, dims, skips, res)
     IN IF pb # "ok"
        THEN /\ stuck' = pb /\ UNCHANGED <<cfg, pc, cur, dims, skips, res, log>>
        ELSE /\ cur' = StageSig(cfg, st, cur, skips, res)
             /\ dims' = StageDims(st, dims)
             /\ skips' = CASE st.kind = "PushSkip" -> <<cur>> \o skips [] st.kind = "ConcatSkip" -> Tail(skips) [] OTHER -> skips
             /\ res' = IF st.kind = "SaveRes" THEN cur ELSE res
             /\ pc' = pc + 1
             /\ log' = Append(log, [kind |-> st.kind, sig |-> StageSig(cfg, st, cur, skips, res), dims |-> StageDims(st, dims)])
             /\ UNCHANGED <<cfg, stuck>>

(* ---- what the finished pass must deliver (C20) ---- *)
FinalSeq(c, S) == SubSeqWhereL(c.outs, LAMBDA e : e \in S)        \* requested order, requested channels
(* every requested type a chain of existing filter types can reach from the input *)
FullyConnected(c) ==
  c.equiv => /\ \A t \in MidTypes(c) : Reachable(TypesOf(SeqToSet(c.ins)), t, c.bank)
             /\ \A t \in MidTypes(c) : Reachable(MidTypes(c), t, c.bank) /\ Reachable(MidTypes(c), t, c.upbank)
ArchAdmissible(c) ==
  /\ FullyConnected(c)
  /\ (c.cls = "UNet" => \A j \in 1..Len(c.dims) : c.dims[j] % Pow2(c.ndown) = 0)
  /\ ((c.gn /\ c.equiv) => \A t \in MidTypes(c) : t[1] <= 1)
TranslationPeriod(c) == IF c.cls = "UNet" THEN Pow2(c.ndown) ELSE 1

ArchInv ==
  /\ (ArchAdmissible(cfg) => stuck = "")                                                   \* NeverStuck
  /\ ((Finished /\ stuck = "") =>
        /\ dims = cfg.dims                                                              \* spatial shape preserved
        /\ TypesOf(cur) \subseteq TypesOf(SeqToSet(cfg.outs))
        /\ \A e \in cur : e \in SeqToSet(cfg.outs)                                      \* requested channels
        /\ (ArchAdmissible(cfg) => FinalSeq(cfg, cur) = cfg.outs)                           \* everything requested, in requested order
        /\ skips = <<>>)
  /\ (stuck = "" => \A e \in cur : e[2] >= 1)
=============================================================================
