------------------------------ MODULE TrainLoop ------------------------------
(***************************************************************************)
(* Machine: ginjax's training loop (ml.train) as seen from outside.        *)
(*                                                                         *)
(*   check --StopCheck--> batching --MakeBatches--> stepping               *)
(*         --TrainStep x nb--> (validate --ValBatches-->) check ... done   *)
(*         --Return--> returned                                            *)
(* and, separately, evaluation in batches (EvalBatches / EvalStep /        *)
(* EvalReturn: map_loss_in_batches, map_plus_loss_in_batches, evaluate).   *)
(*                                                                         *)
(* One action per observable step of the code: the call of the user's      *)
(* stopping condition, the call of get_batches, each train_step, the       *)
(* validation pass, the return.  Every action is a conjunction of NAMED    *)
(* guards (sequences of <<name, BOOLEAN>>) so that the trace validator can *)
(* say which clause a recorded event violates.                             *)
(*                                                                         *)
(* cfg : [kind, monitor, patience, mindelta, epochs, L, B, keyed, hasval,  *)
(*        LV] -- kind "patience"/"epochs"; monitor "train"/"val".          *)
(* Models are identified by the number of optimiser steps that produced    *)
(* them ("version"; 0 = initial model).                                    *)
(***************************************************************************)
EXTENDS Integers, Sequences, FiniteSets

VARIABLES cfg, epoch, phase, best, bestModel, since, stopped, version, step, batches, bank, hist
tvars == <<cfg, epoch, phase, best, bestModel, since, stopped, version, step, batches, bank, hist>>

INF == 1000000
NB(c) == c.L \div c.B                                  \* floor(L/B) batches, the remainder is dropped

TInit(c) == /\ cfg = c /\ epoch = 0 /\ phase = "check" /\ best = INF /\ bestModel = 0 /\ since = 0
            /\ stopped = FALSE /\ version = 0 /\ step = 0 /\ batches = <<>> /\ bank = "same" /\ hist = <<>>

TReset(c) == /\ cfg' = c /\ epoch' = 0 /\ best' = INF
             /\ phase' = (IF "start" \in DOMAIN c THEN c.start ELSE "check")   \* stand-alone get_batches traces start at "batching"
             /\ bestModel' = 0 /\ since' = 0
             /\ stopped' = FALSE /\ version' = 0 /\ step' = 0 /\ batches' = <<>> /\ bank' = "same" /\ hist' = <<>>

AllTrue(gs) == \A i \in 1..Len(gs) : gs[i][2]
FirstFalse(gs) == IF AllTrue(gs) THEN "none"
                  ELSE gs[CHOOSE i \in 1..Len(gs) : ~gs[i][2] /\ \A j \in 1..(i - 1) : gs[j][2]][1]

(* ---------------- StopCheck -------------------------------------------------------------- *)
(* ev : [epoch, model, tlNone, tl, vlNone, vl, ret, best]  (tl/vl integers, meaningful unless *None) *)
MonNone(ev) == IF cfg.monitor = "train" THEN ev.tlNone ELSE ev.vlNone
Mon(ev)     == IF cfg.monitor = "train" THEN ev.tl ELSE ev.vl
Improved(ev) == ~MonNone(ev) /\ Mon(ev) < best - cfg.mindelta
NewSince(ev) == IF MonNone(ev) THEN since ELSE IF Improved(ev) THEN 0 ELSE since + 1
ExpRet(ev)  == IF cfg.kind = "epochs" THEN ev.epoch >= cfg.epochs
               ELSE IF MonNone(ev) THEN FALSE ELSE NewSince(ev) > cfg.patience
ExpBest(ev) == IF cfg.kind = "epochs" THEN ev.model
               ELSE IF Improved(ev) THEN ev.model ELSE bestModel
(* cfg.focus (optional): "all" (default) every guard; "stop": only the stopping-rule guards, the trace is
   projected on StopCheck/Return events (so a batching defect cannot raise a stopping alarm); "batch": loop and
   batching guards only, the stopping verdict is taken from the event. *)
Focus == IF "focus" \in DOMAIN cfg THEN cfg.focus ELSE "all"
StopLoopGuards(ev) == <<
   <<"StopCheck: the loop is at its stopping-condition call", phase = "check">>,
   <<"StopCheck: epoch counter", ev.epoch = epoch>>,
   <<"StopCheck: the model passed is the current model", ev.model = version>> >>
StopRuleGuards(ev) == <<
   <<"StopCheck: a training loss is passed exactly after the first epoch", ev.tlNone = (epoch = 0)>>,
   <<"StopCheck: a validation loss is passed exactly when validation data exists and an epoch has run",
        ev.vlNone = (epoch = 0 \/ ~cfg.hasval)>>,
   <<"StopCheck: stops exactly when the rule says so (patience / min_delta / epoch count)", ev.ret = ExpRet(ev)>>,
   <<"StopCheck: best_model is the model of the best monitored loss (last model for EpochStop)", ev.best = ExpBest(ev)>> >>
ScriptGuards(ev) == <<
   <<"StopCheck: the training loss handed to the condition is the epoch's mean loss (scripted run)",
        ("script" \in DOMAIN cfg /\ ~ev.tlNone /\ epoch >= 1 /\ epoch <= Len(cfg.script)) => ev.tl = cfg.script[epoch]>>,
   <<"StopCheck: the validation loss handed to the condition is the epoch's validation loss (scripted run)",
        ("vscript" \in DOMAIN cfg /\ ~ev.vlNone /\ epoch >= 1 /\ epoch <= Len(cfg.vscript)) => ev.vl = cfg.vscript[epoch]>> >>
StopCheckGuards(ev) ==
  CASE Focus = "stop"  -> <<<<"StopCheck: epoch counter", ev.epoch = epoch /\ phase = "check">>,
                            <<"StopCheck: the model passed is the current model", ev.model = version>>>> \o ScriptGuards(ev) \o StopRuleGuards(ev)
    [] Focus \in {"batch", "bank"} -> StopLoopGuards(ev)
    [] OTHER           -> StopLoopGuards(ev) \o StopRuleGuards(ev)
StopCheck(ev) ==
  /\ AllTrue(StopCheckGuards(ev))
  /\ best' = IF cfg.kind = "patience" /\ Improved(ev) THEN Mon(ev) ELSE best
  /\ bestModel' = IF Focus \in {"batch", "bank"} THEN ev.best ELSE ExpBest(ev)
  /\ since' = IF cfg.kind = "patience" THEN NewSince(ev) ELSE 0
  /\ stopped' = ev.ret
  /\ hist' = IF MonNone(ev) THEN hist ELSE Append(hist, Mon(ev))
  /\ phase' = IF ev.ret THEN "done" ELSE IF Focus = "stop" THEN "check" ELSE "batching"
  /\ epoch' = IF Focus = "stop" THEN epoch + 1 ELSE epoch
  /\ UNCHANGED <<cfg, version, step, batches, bank>>

(* ---------------- MakeBatches / ValBatches ------------------------------------------------- *)
(* ev : [obs : Seq([mi, batch, idx : Seq(Nat)])]  -- one record per (co-batched multi-image, type, batch);
   idx are the sample indices read back from the returned data, in order (device axis flattened) *)
Range(s) == {s[i] : i \in 1..Len(s)}
BatchOf(ev, b) == LET o == CHOOSE o \in Range(ev.obs) : o.batch = b IN o.idx
NBatchesSeen(ev) == Cardinality({o.batch : o \in Range(ev.obs)})
BatchGuards(ev, L, B, keyed) == <<
   <<"Batches: floor(L/B) batches", {o.batch : o \in Range(ev.obs)} = 1..(L \div B)>>,
   <<"Batches: every batch has exactly B samples", \A o \in Range(ev.obs) : Len(o.idx) = B>>,
   <<"Batches: every co-batched multi-image and every tensor type is sliced with the same indices in the same order",
        \A o1 \in Range(ev.obs), o2 \in Range(ev.obs) : o1.batch = o2.batch => o1.idx = o2.idx>>,
   <<"Batches: sample indices are in range", \A o \in Range(ev.obs) : Range(o.idx) \subseteq 0..(L - 1)>>,
   <<"Batches: no sample index appears twice in an epoch",
        \A o1 \in Range(ev.obs), o2 \in Range(ev.obs) :
           /\ (o1.batch # o2.batch => Range(o1.idx) \cap Range(o2.idx) = {})
           /\ Cardinality(Range(o1.idx)) = Len(o1.idx)>>,
   <<"Batches: identity order when no key is given",
        keyed \/ \A o \in Range(ev.obs) : \A i \in 1..Len(o.idx) : o.idx[i] = (o.batch - 1) * B + (i - 1)>>,
   <<"Batches: the device axis only reshapes, never reorders (same key, one device, gives the same order)",
        ("ref" \in DOMAIN ev) => \A o \in Range(ev.obs), r \in Range(ev.ref) : r.batch = o.batch => r.idx = o.idx>> >>
BatchFocus == Focus \in {"all", "batch"}
MakeBatchesGuards(ev) == <<<<"MakeBatches: the loop is about to start an epoch", phase = "batching">>>>
                         \o (IF BatchFocus THEN BatchGuards(ev, cfg.L, cfg.B, cfg.keyed) ELSE <<>>)
MakeBatches(ev) ==
  /\ AllTrue(MakeBatchesGuards(ev))
  /\ batches' = IF BatchFocus THEN [b \in 1..NB(cfg) |-> BatchOf(ev, b)] ELSE <<>>
  /\ step' = 0
  /\ phase' = IF NB(cfg) = 0 THEN (IF cfg.hasval THEN "validate" ELSE "check") ELSE "stepping"
  /\ epoch' = IF NB(cfg) = 0 THEN epoch + 1 ELSE epoch
  /\ UNCHANGED <<cfg, best, bestModel, since, stopped, version, bank, hist>>

ValBatchesGuards(ev) == <<<<"ValBatches: the loop is in its validation pass", phase = "validate">>>>
                        \o (IF BatchFocus THEN BatchGuards(ev, cfg.LV, cfg.B, cfg.keyed) ELSE <<>>)
ValBatches(ev) ==
  /\ AllTrue(ValBatchesGuards(ev))
  /\ phase' = "check"
  /\ UNCHANGED <<cfg, epoch, best, bestModel, since, stopped, version, step, batches, bank, hist>>

(* ---------------- TrainStep --------------------------------------------------------------- *)
(* ev : [x : Seq(Seq(Nat)) (per input type), y : Seq(Seq(Nat)) (per target type), vin, vout, bank] *)
TrainStepGuards(ev) ==
  IF Focus = "stop" THEN <<<<"TrainStep: exactly one optimiser step on the current model", ev.vin = version /\ ev.vout = version + 1>>>> ELSE
  <<<<"TrainStep: the loop is inside an epoch", phase = "stepping" /\ step < NB(cfg)>>>>
  \o (IF BatchFocus THEN <<
        <<"TrainStep: the inputs are the next batch, for every tensor type",
             phase = "stepping" /\ step < NB(cfg) => \A i \in 1..Len(ev.x) : ev.x[i] = batches[step + 1]>>,
        <<"TrainStep: targets are aligned with inputs (same indices, same order, every type)",
             phase = "stepping" /\ step < NB(cfg) => \A i \in 1..Len(ev.y) : ev.y[i] = batches[step + 1]>> >> ELSE <<>>)
  \o <<<<"TrainStep: exactly one optimiser step on the current model", ev.vin = version /\ ev.vout = version + 1>>>>
  \o (IF Focus \in {"all", "bank"} THEN
        <<<<"TrainStep: the invariant filter bank changes at most by a common rescaling", ev.bank \in {"same", "scaled"}>>>> ELSE <<>>)
TrainStepFull(ev) ==
  /\ version' = version + 1
  /\ step' = step + 1
  /\ bank' = IF ev.bank = "same" THEN bank ELSE "scaled"
  /\ epoch' = IF step + 1 = NB(cfg) THEN epoch + 1 ELSE epoch
  /\ phase' = IF step + 1 = NB(cfg) THEN (IF cfg.hasval THEN "validate" ELSE "check") ELSE "stepping"
  /\ UNCHANGED <<cfg, best, bestModel, since, stopped, batches, hist>>

TrainStep(ev) ==
  /\ AllTrue(TrainStepGuards(ev))
  /\ IF Focus = "stop"
     THEN /\ version' = version + 1
          /\ UNCHANGED <<cfg, epoch, phase, best, bestModel, since, stopped, step, batches, bank, hist>>
     ELSE TrainStepFull(ev)

(* ---------------- Return ------------------------------------------------------------------ *)
ReturnGuards(ev) == <<
   <<"Return: training returns only after the stopping condition said stop", phase = "done">>,
   <<"Return: the returned model is the stopping condition's best model", ev.model = bestModel>> >>
Return(ev) ==
  /\ AllTrue(ReturnGuards(ev))
  /\ phase' = "returned"
  /\ UNCHANGED <<cfg, epoch, best, bestModel, since, stopped, version, step, batches, bank, hist>>

(* ---------------- evaluation in batches (map_loss_in_batches / map_plus_loss_in_batches) ---- *)
(* A stand-alone machine on the same variables: traces start at phase "evalbatching" (cfg.start).            *)
(*   evalbatching --EvalBatches--> evaluating --EvalStep x nb--> evaluating --EvalReturn--> evaldone         *)
(* cfg : [L, B, keyed, withmap].  `hist` collects the per-batch losses.  The harness' map_and_loss returns,   *)
(* per device, n_devices * (sum of the sample indices of the shard), so the device mean that `evaluate`       *)
(* takes is the sum of the batch's indices; the model is the identity on index-carrying data.                  *)
RECURSIVE SumH(_)
SumH(h) == IF h = <<>> THEN 0 ELSE h[1] + SumH(Tail(h))
RECURSIVE FlatB(_)
FlatB(bs) == IF bs = <<>> THEN <<>> ELSE bs[1] \o FlatB(Tail(bs))
EvalBatchesGuards(ev) == <<<<"EvalBatches: evaluation starts by batching the data set", phase = "evalbatching">>>>
                         \o BatchGuards(ev, cfg.L, cfg.B, cfg.keyed)
EvalBatches(ev) ==
  /\ AllTrue(EvalBatchesGuards(ev))
  /\ batches' = [b \in 1..NB(cfg) |-> BatchOf(ev, b)]
  /\ step' = 0 /\ hist' = <<>> /\ phase' = "evaluating"
  /\ UNCHANGED <<cfg, epoch, best, bestModel, since, stopped, version, bank>>
EvalStepGuards(ev) == <<
   <<"EvalStep: one evaluation per batch, in order", phase = "evaluating" /\ step < NB(cfg)>>,
   <<"EvalStep: the inputs are the next batch, for every tensor type",
        (phase = "evaluating" /\ step < NB(cfg)) => \A i \in 1..Len(ev.x) : ev.x[i] = batches[step + 1]>>,
   <<"EvalStep: targets are aligned with inputs (same indices, same order, every type)",
        (phase = "evaluating" /\ step < NB(cfg)) => \A i \in 1..Len(ev.y) : ev.y[i] = batches[step + 1]>>,
   <<"EvalStep: the model evaluated is the model passed in", ev.vin = version>>,
   <<"EvalStep: the model runs in inference mode", ev.inference>>,
   <<"EvalStep: the batch loss is the mean over devices of the per-device losses",
        (phase = "evaluating" /\ step < NB(cfg)) => ev.loss = SumH(batches[step + 1])>> >>
EvalStep(ev) ==
  /\ AllTrue(EvalStepGuards(ev))
  /\ step' = step + 1 /\ hist' = Append(hist, ev.loss)
  /\ UNCHANGED <<cfg, epoch, phase, best, bestModel, since, stopped, version, batches, bank>>
EvalReturnGuards(ev) == <<
   <<"EvalReturn: every batch was evaluated exactly once", phase = "evaluating" /\ step = NB(cfg)>>,
   <<"EvalReturn: the returned loss is the mean of the per-batch losses", ev.lossTimesNB = SumH(hist)>>,
   <<"EvalReturn: the mapped output lists the model's outputs in batch order, aligned for every tensor type",
        cfg.withmap => \A i \in 1..Len(ev.map) : ev.map[i] = FlatB(batches)>> >>
EvalReturn(ev) ==
  /\ AllTrue(EvalReturnGuards(ev))
  /\ phase' = "evaldone"
  /\ UNCHANGED <<cfg, epoch, best, bestModel, since, stopped, version, step, batches, bank, hist>>
(* design property: what an accepted evaluation has computed *)
EvalInv ==
  phase = "evaldone" =>
     /\ Len(hist) = NB(cfg) /\ Len(FlatB(batches)) = NB(cfg) * cfg.B
     /\ Cardinality(Range(FlatB(batches))) = NB(cfg) * cfg.B                 \* every evaluated sample exactly once
     /\ SumH(hist) = SumH(FlatB(batches))                                    \* nothing but those samples enters the loss

(* ---------------- properties of the design (checked by MC_TrainLoop) ----------------------- *)
RECURSIVE BestAt(_, _, _)
BestAt(h, i, md)   == IF i = 0 THEN INF ELSE LET b == BestAt(h, i - 1, md) IN IF h[i] < b - md THEN h[i] ELSE b
Improves(h, j, md) == h[j] < BestAt(h, j - 1, md) - md
LastImp(h, i, md)  == IF \E j \in 1..i : Improves(h, j, md)
                      THEN CHOOSE j \in 1..i : Improves(h, j, md) /\ \A j2 \in (j + 1)..i : ~Improves(h, j2, md)
                      ELSE 0
LoopInv ==
  /\ version = epoch * NB(cfg) + (IF phase = "stepping" THEN step ELSE 0)
  /\ bank \in {"same", "scaled"}
  /\ (phase = "stepping" =>
        /\ Len(batches) = NB(cfg)
        /\ \A b1 \in 1..Len(batches), b2 \in 1..Len(batches) : b1 # b2 => Range(batches[b1]) \cap Range(batches[b2]) = {})
  /\ (cfg.kind = "patience" =>
        /\ since <= cfg.patience + 1
        /\ (phase \in {"done", "returned"} <=> since = cfg.patience + 1)
        /\ bestModel = LastImp(hist, Len(hist), cfg.mindelta) * NB(cfg)           \* the model after the best epoch
        /\ since = Len(hist) - LastImp(hist, Len(hist), cfg.mindelta))
  /\ (cfg.kind = "epochs" => (phase \in {"done", "returned"} => epoch = cfg.epochs /\ bestModel = version))
=============================================================================
