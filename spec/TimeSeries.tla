----------------------------- MODULE TimeSeries -----------------------------
(***************************************************************************)
(* Vocabulary + machine: splitting a trajectory of T steps into causal     *)
(* (past, future) training pairs.                                          *)
(*   p past steps, f future steps, spacing dt, s skipped initial steps.    *)
(* Two independent formulations that TLC proves equal on every bounded     *)
(* configuration:                                                          *)
(*   declarative  In(w,j) = s + w + j dt,  Out(w,j) = s + w + (p+j) dt,    *)
(*                W = T - s - (p+f-1) dt                                   *)
(*   operational  a cursor slides over the trajectory emitting one window  *)
(*                per start position while the whole window still fits.    *)
(* Channel layout of a sample: per tensor type, dynamic channel c at past  *)
(* step j sits in slot c*p + j (time minor), constant fields follow; a     *)
(* target has slot c*f + j and never a constant.                           *)
(***************************************************************************)
EXTENDS Integers, Sequences, FiniteSets

NWin(T, p, f, dt, s) == T - s - (p + f - 1) * dt
In(w, j, p, dt, s)   == s + w + j * dt                       \* w, j 0-based
Out(w, j, p, dt, s)  == s + w + (p + j) * dt
DeclWindows(T, p, f, dt, s) ==
  [w \in 1..NWin(T, p, f, dt, s) |-> [inp |-> [j \in 1..p |-> In(w - 1, j - 1, p, dt, s)],
                                      out |-> [j \in 1..f |-> Out(w - 1, j - 1, p, dt, s)]]]

(* operational: step a cursor; a window starting at `start` visits start, start+dt, ... (p+f of them) *)
RECURSIVE Walk(_, _, _)
Walk(t, n, dt) == IF n = 0 THEN <<>> ELSE <<t>> \o Walk(t + dt, n - 1, dt)
RECURSIVE Slide(_, _, _, _, _)
Slide(start, T, p, f, dt) ==
  LET visit == Walk(start, p + f, dt) IN
  IF visit[p + f] > T - 1 THEN <<>>                                   \* the window no longer fits: stop
  ELSE <<[inp |-> SubSeq(visit, 1, p), out |-> SubSeq(visit, p + 1, p + f)]>> \o Slide(start + 1, T, p, f, dt)
OpWindows(T, p, f, dt, s) == Slide(s, T, p, f, dt)

(* slots of one tensor type in an input / a target sample: <<kind, channel, step>> *)
XSlots(c, nconst, p) == [u \in 1..(c * p + nconst) |->
                           IF u <= c * p THEN <<"dyn", (u - 1) \div p, (u - 1) % p>> ELSE <<"const", u - c * p - 1, 0>>]
YSlots(c, f) == [u \in 1..(c * f) |-> <<"dyn", (u - 1) \div f, (u - 1) % f>>]

(* the properties of C15 for one configuration *)
WindowLaws(T, p, f, dt, s) ==
  LET ws == DeclWindows(T, p, f, dt, s) IN
  /\ ws = OpWindows(T, p, f, dt, s)                                                  \* the two formulations agree
  /\ Len(ws) = T - s - (p + f - 1) * dt
  /\ \A w \in 1..Len(ws) :
       /\ \A j \in 1..p : ws[w].inp[j] \in s..(T - 1)
       /\ \A j \in 1..f : ws[w].out[j] \in s..(T - 1)
       /\ \A j \in 1..(p - 1) : ws[w].inp[j] < ws[w].inp[j + 1]                      \* time order
       /\ \A j \in 1..(f - 1) : ws[w].out[j] < ws[w].out[j + 1]
       /\ \A j \in 1..p, j2 \in 1..f : ws[w].inp[j] < ws[w].out[j2]                  \* causal: no target time is an input time
       /\ ws[w].out[1] = ws[w].inp[p] + dt
  /\ (Len(ws) >= 1 => ws[Len(ws)].out[f] = T - 1 /\ ws[1].inp[1] = s)               \* all the data, nothing before the skip
=============================================================================
