-------------------------- MODULE InvariantFilters --------------------------
(***************************************************************************)
(* Vocabulary: the space of G-invariant filters of side M, tensor order K, *)
(* parity P in dimension D, for a finite group G of signed permutations.   *)
(*                                                                         *)
(* A basis filter is e = <<x, J>> (pixel x of the M^D box, tensor index J, *)
(* both 0-based).  g maps it to +/- another basis filter: Img(g,e).  The   *)
(* group average of e is |Stab(e)| times the signed indicator of its orbit *)
(* (OrbitVec) unless some g maps e to -e (Cancels), in which case it is 0. *)
(* Hence                                                                   *)
(*    Family == { OrbitVec(e) : ~Cancels(e) }   (up to global sign)        *)
(* is a basis of the invariant subspace: members are invariant, have       *)
(* pairwise disjoint supports (=> independent), and their number equals    *)
(* the character formula CharDim (=> spanning).  TLC checks all three per  *)
(* instance; the two counts are independent computations.                  *)
(***************************************************************************)
EXTENDS GeomImage

SqDims(D, M) == [i \in 1..D |-> M]
Basis(D, M, K) == Pix(SqDims(D, M)) \X [1..K -> 0..(D - 1)]

Img(g, e, D, M, P) ==
  LET q   == Inv(g).p
      J   == [a \in 1..Len(e[2]) |-> q[e[2][a] + 1] - 1]
      sgn == (IF P = 1 THEN Det(g) ELSE 1) * ProdSeq([a \in 1..Len(J) |-> g.s[J[a] + 1]])
  IN <<sgn, <<MovePix(g, SqDims(D, M), e[1]), J>>>>

Cancels(G, e, D, M, P)  == \E g \in G : Img(g, e, D, M, P) = <<-1, e>>
OrbitVec(G, e, D, M, P) == {Img(g, e, D, M, P) : g \in G}          \* set of <<sign, basis element>>

LinE(e, D, M) == Lin(e[1] \o e[2], Strides(Radix(SqDims(D, M), Len(e[2]))))
(* global sign fixed so that the member with the smallest linear index is positive *)
Canon(U, D, M) ==
  LET first == CHOOSE u \in U : \A w \in U : LinE(u[2], D, M) <= LinE(w[2], D, M)
  IN IF first[1] = 1 THEN U ELSE {<<-u[1], u[2]>> : u \in U}

Family(G, D, M, K, P) ==
  {Canon(OrbitVec(G, e, D, M, P), D, M) : e \in {b \in Basis(D, M, K) : ~Cancels(G, b, D, M, P)}}

Support(U) == {u[2] : u \in U}
ActVec(g, U, D, M, P) == {LET im == Img(g, u[2], D, M, P) IN <<u[1] * im[1], im[2]>> : u \in U}

Dense(U, D, M, K) ==          \* flat row-major {0,1,-1} vector of length M^D * D^K
  LET r == Radix(SqDims(D, M), K)  s == Strides(r) IN
  [m \in 1..ProdSeq(r) |->
     LET dg == Unlin(m - 1, r, s)
         e  == <<SubSeq(dg, 1, D), SubSeq(dg, D + 1, D + K)>>
     IN IF <<1, e>> \in U THEN 1 ELSE IF <<-1, e>> \in U THEN -1 ELSE 0]

(* ---- the character formula ---- *)
FixPix(g, D, M) == Cardinality({x \in Pix(SqDims(D, M)) : MovePix(g, SqDims(D, M), x) = x})
CharTerm(g, D, M, K, P) == FixPix(g, D, M) * Pow(Tr(g), K) * (IF P = 1 THEN Det(g) ELSE 1)
RECURSIVE CharSum(_, _, _, _, _)
CharSum(S, D, M, K, P) == IF S = {} THEN 0
                          ELSE LET g == CHOOSE g \in S : TRUE
                               IN CharTerm(g, D, M, K, P) + CharSum(S \ {g}, D, M, K, P)
CharNum(G, D, M, K, P) == CharSum(G, D, M, K, P)          \* = |G| * dim of the invariant subspace

(* ---- the three properties of C03, per instance ---- *)
FamilyLaws(G, D, M, K, P) ==
  LET F == Family(G, D, M, K, P) IN
  /\ IsGroup(G, D)
  /\ \A v \in F : \A g \in G : ActVec(g, v, D, M, P) = v                         \* invariant
  /\ \A v \in F, w \in F : v # w => Support(v) \cap Support(w) = {}              \* independent
  /\ Cardinality(F) * Cardinality(G) = CharNum(G, D, M, K, P)                    \* complete (dimension count)
=============================================================================
