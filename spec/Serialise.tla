------------------------------ MODULE Serialise ------------------------------
(***************************************************************************)
(* Vocabulary: ml.save / ml.load as seen through the model's pytree.       *)
(*                                                                         *)
(* A model is a sequence of LEAVES <<kind, value>>; kinds "array",         *)
(* "bool", "int", "float" are serialisable (what eqx.tree_serialise_leaves *)
(* writes), "opaque" leaves (callables, None, strings) are not.  Static    *)
(* fields are part of the tree STRUCTURE, not leaves: two models are       *)
(* same-structured iff they have the same kinds position by position (and  *)
(* equal opaque leaves / static fields).                                   *)
(*                                                                         *)
(*   Save(m)       the serialisable leaf values, in leaf order             *)
(*   Load(f, t)    template t with every serialisable leaf replaced by the *)
(*                 file's value at that position                           *)
(*                                                                         *)
(* Property (C13, last sentence): loading a saved model into ANY           *)
(* same-structured template returns the saved model leaf for leaf, so its  *)
(* outputs are reproduced bit for bit -- whatever the template's own       *)
(* arrays, flags and numbers were.                                         *)
(***************************************************************************)
EXTENDS Integers, Sequences, FiniteSets, TLC, Json

CONSTANTS MaxLeaves, Vals
SerKinds == {"array", "bool", "int", "float"}
Kinds    == SerKinds \cup {"opaque"}
Serialisable(l) == l[1] \in SerKinds
Models   == UNION {[1..n -> Kinds \X Vals] : n \in 1..MaxLeaves}
SameStructure(m, t) == /\ Len(m) = Len(t)
                       /\ \A n \in 1..Len(m) : m[n][1] = t[n][1] /\ (m[n][1] = "opaque" => m[n] = t[n])
Save(m)    == [n \in 1..Len(m) |-> IF Serialisable(m[n]) THEN m[n][2] ELSE -1]
Load(f, t) == [n \in 1..Len(t) |-> IF Serialisable(t[n]) THEN <<t[n][1], f[n]>> ELSE t[n]]

RoundTrip == \A m \in Models : \A t \in Models : SameStructure(m, t) => Load(Save(m), t) = m
(* the kinds in which a template may differ from the saved model: every non-empty subset must be exercised by the replay *)
DiffKinds(m, t) == {m[n][1] : n \in {q \in 1..Len(m) : m[q] # t[q]}}
(* negative control: a loader that restores arrays only is NOT a round trip as soon as another serialisable leaf differs *)
LoadArraysOnly(f, t) == [n \in 1..Len(t) |-> IF t[n][1] = "array" THEN <<"array", f[n]>> ELSE t[n]]
ArraysOnlyBreaks == \E m \in Models : \E t \in Models : SameStructure(m, t) /\ LoadArraysOnly(Save(m), t) # m

VARIABLE st
Init == st = "check"
Next == st = "check" /\ st' = "done"
Laws == /\ RoundTrip
        /\ ArraysOnlyBreaks
        /\ (st = "done" => PrintT(<<"CASE", ToJson([patterns |-> {p \in SUBSET SerKinds : p # {} /\ \E m \in Models : \E t \in Models :
                                                                    SameStructure(m, t) /\ DiffKinds(m, t) = p}])>>))
=============================================================================
