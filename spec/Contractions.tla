---------------------------- MODULE Contractions ----------------------------
(***************************************************************************)
(* Vocabulary: the distinct Kronecker contractions of a k-index tensor     *)
(* down to kf indices = the sets of (k-kf)/2 pairwise disjoint unordered   *)
(* index pairs.  (C05: a contraction does not depend on the order of the   *)
(* pairs nor on the order inside a pair, so these sets ARE the distinct    *)
(* contractions; geom.get_contraction_indices must enumerate each exactly  *)
(* once.)  Indices are 0-based as in the library.                          *)
(***************************************************************************)
EXTENDS Integers, FiniteSets, Sequences, TLC, Json

Pairs(k) == {pr \in SUBSET (0..(k - 1)) : Cardinality(pr) = 2}
Disjoint(S) == \A a \in S, b \in S : a # b => a \cap b = {}
AllContractions(k, kf) == {S \in SUBSET Pairs(k) : Cardinality(S) = (k - kf) \div 2 /\ Disjoint(S)}

(* count by the closed formula  k! / ((k-2m)! m! 2^m),  m = (k-kf)/2 *)
RECURSIVE Fact(_)
Fact(n) == IF n = 0 THEN 1 ELSE n * Fact(n - 1)
RECURSIVE P2(_)
P2(n) == IF n = 0 THEN 1 ELSE 2 * P2(n - 1)
CountFormula(k, kf) == LET m == (k - kf) \div 2 IN Fact(k) \div (Fact(k - 2 * m) * Fact(m) * P2(m))

CONSTANT MaxK
VARIABLE st
Init == st = [kind |-> "init"]
Pick == st.kind = "init" /\ \E k \in 2..MaxK, kf \in 0..MaxK : kf <= k /\ (k - kf) % 2 = 0 /\ kf < k /\ st' = [kind |-> "case", k |-> k, kf |-> kf]
Next == Pick
Laws == st.kind = "case" => Cardinality(AllContractions(st.k, st.kf)) = CountFormula(st.k, st.kf)
SetSeq(S) == LET RECURSIVE F(_)
                 F(T) == IF T = {} THEN <<>> ELSE LET x == CHOOSE x \in T : TRUE IN <<x>> \o F(T \ {x})
             IN F(S)
Emit == st.kind = "case" =>
  PrintT(<<"CASE", ToJson([k |-> st.k, kf |-> st.kf, count |-> CountFormula(st.k, st.kf),
                           sets |-> [i \in 1..Cardinality(AllContractions(st.k, st.kf)) |->
                                       LET S == SetSeq(AllContractions(st.k, st.kf))[i] IN [j \in 1..Cardinality(S) |-> SetSeq(SetSeq(S)[j])]]])>>)
=============================================================================
