------------------------------- MODULE Pooling -------------------------------
(***************************************************************************)
(* Vocabulary: pooling and un-pooling of geometric images, declaratively   *)
(* (not via convolution).  Patch length q; the image extents are multiples *)
(* of q.  Patch P(x') of output pixel x' = { x'q + r : r in [0,q)^D }.     *)
(*   AvgPoolNum   numerator of the patch mean (denominator q^D)            *)
(*                -- defined in MultiImage.tla, reused here                *)
(*   Unpool       nearest neighbour: out(x) = A(x div q)                   *)
(*   MaxPoolNorm  the pixel of the patch whose Frobenius norm is largest;  *)
(*                specified only when that pixel is unique (UniqueMax)     *)
(***************************************************************************)
EXTENDS MultiImage

PatchOffs(D, q) == PixSeq2([j \in 1..D |-> q])
PixNormSq(A, x) == LET nc == NComp(A)  st == Strides(A.dims)  m == Lin(x, st)
                   IN SumSeq([c \in 1..nc |-> A.val[m * nc + c] * A.val[m * nc + c]])
PatchPix(A, xo, q) == [r \in 1..Len(PatchOffs(DimI(A), q)) |-> [j \in 1..DimI(A) |-> xo[j] * q + PatchOffs(DimI(A), q)[r][j]]]
UniqueMax(A, q) ==
  LET od == [j \in 1..DimI(A) |-> A.dims[j] \div q] IN
  \A n \in 1..ProdSeq(od) :
     LET xo == Unlin(n - 1, od, Strides(od))  pp == PatchPix(A, xo, q)
         mx == CHOOSE r \in 1..Len(pp) : \A r2 \in 1..Len(pp) : PixNormSq(A, pp[r2]) <= PixNormSq(A, pp[r])
     IN \A r2 \in 1..Len(pp) : r2 # mx => PixNormSq(A, pp[r2]) < PixNormSq(A, pp[mx])

MaxPoolNorm(A, q) ==
  LET D  == DimI(A)
      od == [j \in 1..D |-> A.dims[j] \div q]
      nc == NComp(A)
      sa == Strides(A.dims)
  IN [A EXCEPT !.dims = od,
        !.val = Eager([n \in 1..(ProdSeq(od) * nc) |->
           LET xo == Unlin((n - 1) \div nc, od, Strides(od))
               pp == PatchPix(A, xo, q)
               mx == CHOOSE r \in 1..Len(pp) : \A r2 \in 1..Len(pp) : PixNormSq(A, pp[r2]) <= PixNormSq(A, pp[r])
           IN A.val[Lin(pp[mx], sa) * nc + ((n - 1) % nc) + 1]])]

Unpool(A, q) ==
  LET D  == DimI(A)
      od == [j \in 1..D |-> A.dims[j] * q]
      nc == NComp(A)
      sa == Strides(A.dims)
  IN [A EXCEPT !.dims = od,
        !.val = Eager([n \in 1..(ProdSeq(od) * nc) |->
           LET x == Unlin((n - 1) \div nc, od, Strides(od))
           IN A.val[Lin([j \in 1..D |-> x[j] \div q], sa) * nc + ((n - 1) % nc) + 1]])]

(* C08, pooling part: each operation commutes with every g and with translations by multiples of q *)
UnitVec(D, j, c) == [i \in 1..D |-> IF i = j THEN c ELSE 0]
PoolLaws(A, q, G) ==
  /\ \A g \in G :
       /\ AvgPoolNum(Act(g, A), q) = Act(g, AvgPoolNum(A, q))
       /\ Unpool(Act(g, A), q) = Act(g, Unpool(A, q))
       /\ (UniqueMax(A, q) => (UniqueMax(Act(g, A), q) /\ MaxPoolNorm(Act(g, A), q) = Act(g, MaxPoolNorm(A, q))))
  /\ \A j \in 1..DimI(A) :
       /\ AvgPoolNum(Shift(A, UnitVec(DimI(A), j, q)), q) = Shift(AvgPoolNum(A, q), UnitVec(DimI(A), j, 1))
       /\ Unpool(Shift(A, UnitVec(DimI(A), j, 1)), q) = Shift(Unpool(A, q), UnitVec(DimI(A), j, q))
       /\ (UniqueMax(A, q) => MaxPoolNorm(Shift(A, UnitVec(DimI(A), j, q)), q) = Shift(MaxPoolNorm(A, q), UnitVec(DimI(A), j, 1)))
  /\ AvgPoolNum(Unpool(A, q), q) = Scale(Pow(q, DimI(A)), A)                       \* pooling undoes un-pooling
=============================================================================
