---------------------------- MODULE ImageProgram ----------------------------
(***************************************************************************)
(* Machine (C05): a register machine over the geometric-image algebra.     *)
(* `reg` holds the images computed so far from the leaves; `twin` holds    *)
(* the SAME program evaluated on the g-transformed leaves (convolution     *)
(* with the transported configuration).  Type soundness is the invariant   *)
(*        twin[i] = Act(g, reg[i])   for every register,                   *)
(* i.e. the declared (k, parity) of every intermediate result is exactly   *)
(* how it transforms.  Leaves are random small-integer images supplied by  *)
(* the harness (IOEnv.PROG_INPUT), so TLC computes the expected value of   *)
(* every register for exactly the inputs the code is run on.               *)
(***************************************************************************)
EXTENDS Convolution, TLC, Json, IOUtils

CONSTANTS Group,       \* set of group elements g to pair the program with
          MaxDepth, KCap, ScaleSet

Input  == JsonDeserialize(IOEnv.PROG_INPUT)
Leaves == Input.leaves          \* Seq([dims, k, p, val])
Filter == Input.filter          \* [dims, k, p, val]  (square, odd side)
CCfg   == Input.cfg             \* convolution configuration used by DoConvolve (N = leaf dims, M = filter dims)
DD     == Len(Leaves[1].dims)

VARIABLES reg, twin, g, hist
vars == <<reg, twin, g, hist>>

Init == \E h \in Group :
          /\ g = h /\ reg = Leaves /\ twin = [i \in 1..Len(Leaves) |-> Act(h, Leaves[i])] /\ hist = <<>>

Room == Len(hist) < MaxDepth
(* exactness domain (DESIGN 1.1 / 5.1): a step is taken only while every entry stays below 2^20, so that float32 arithmetic of the
   implementation is exact on the integers involved (and the square root of a squared norm can be recovered exactly) *)
Cap == 1048576
Small(A) == \A n \in 1..Len(A.val) : A.val[n] < Cap /\ A.val[n] > -Cap
Push(r, t, rec) == Small(r) /\ reg' = Append(reg, r) /\ twin' = Append(twin, t) /\ hist' = Append(hist, rec) /\ UNCHANGED g

DoAdd(i, j) == /\ Room /\ i <= j /\ SameType(reg[i], reg[j])
               /\ Push(Add(reg[i], reg[j]), Add(twin[i], twin[j]), [op |-> "Add", i |-> i, j |-> j])
DoSub(i, j) == /\ Room /\ i # j /\ SameType(reg[i], reg[j])
               /\ Push(Sub(reg[i], reg[j]), Sub(twin[i], twin[j]), [op |-> "Sub", i |-> i, j |-> j])
DoScale(i, c) == /\ Room
                 /\ Push(Scale(c, reg[i]), Scale(c, twin[i]), [op |-> "Scale", i |-> i, c |-> c])
DoTProd(i, j) == /\ Room /\ reg[i].k + reg[j].k <= KCap
                 /\ Push(TProd(reg[i], reg[j]), TProd(twin[i], twin[j]), [op |-> "TProd", i |-> i, j |-> j])
DoTranspose(i, pm) == /\ Room /\ reg[i].k = Len(pm) /\ pm # [a \in 1..Len(pm) |-> a]
                      /\ Push(Transpose(reg[i], pm), Transpose(twin[i], pm), [op |-> "Transpose", i |-> i, perm |-> pm])
DoContract(i, a, b) == /\ Room /\ a # b /\ a <= reg[i].k /\ b <= reg[i].k
                       /\ Push(Contract(reg[i], a, b), Contract(twin[i], a, b), [op |-> "Contract", i |-> i, a |-> a, b |-> b])
DoMulti(i, prs) == /\ Room /\ reg[i].k >= 4
                   /\ Push(MultiContract(reg[i], prs), MultiContract(twin[i], prs), [op |-> "MultiContract", i |-> i, pairs |-> prs])
DoLevi(i, idxs) == /\ Room /\ reg[i].k >= DD - 1 /\ \A a \in 1..Len(idxs) : idxs[a] <= reg[i].k
                   /\ reg[i].k - (DD - 1) + 1 <= KCap
                   /\ Push(LeviCivita(reg[i], idxs), LeviCivita(twin[i], idxs), [op |-> "LeviCivita", i |-> i, idxs |-> idxs])
DoNormSq(i) == /\ Room
               /\ Push(NormSq(reg[i]), NormSq(twin[i]), [op |-> "NormSq", i |-> i])
DoSpatialSum(i) == /\ Room
                   /\ Push(SpatialSumField(reg[i]), SpatialSumField(twin[i]), [op |-> "SpatialSum", i |-> i])
ConvImg(c, A, F) == ConvOne(c, <<A>>, <<F>>)
DoConv(i) == /\ Room /\ reg[i].k + Filter.k <= KCap /\ reg[i].dims = CCfg.N
             /\ Push(ConvImg(CCfg, reg[i], Filter), ConvImg(CfgG(g, CCfg), twin[i], Act(g, Filter)), [op |-> "Convolve", i |-> i])

Idxs1 == {<<a>> : a \in 1..KCap}
Idxs2 == {<<a, b>> : a \in 1..KCap, b \in 1..KCap} \ {<<a, a>> : a \in 1..KCap}
PairSets == {<<<<1, 2>>, <<3, 4>>>>, <<<<3, 4>>, <<1, 2>>>>, <<<<1, 3>>, <<2, 4>>>>, <<<<4, 2>>, <<3, 1>>>>, <<<<1, 4>>, <<2, 3>>>>}

Next ==
  \/ \E i \in 1..Len(reg), j \in 1..Len(reg) : DoAdd(i, j) \/ DoSub(i, j) \/ DoTProd(i, j)
  \/ \E i \in 1..Len(reg), c \in ScaleSet : DoScale(i, c)
  \/ \E i \in 1..Len(reg), pm \in (Perms(2) \cup Perms(3)) : DoTranspose(i, pm)
  \/ \E i \in 1..Len(reg), a \in 1..KCap, b \in 1..KCap : DoContract(i, a, b)
  \/ \E i \in 1..Len(reg), prs \in PairSets : DoMulti(i, prs)
  \/ \E i \in 1..Len(reg), idxs \in (IF DD = 2 THEN Idxs1 ELSE Idxs2) : DoLevi(i, idxs)
  \/ \E i \in 1..Len(reg) : DoNormSq(i) \/ DoConv(i) \/ DoSpatialSum(i)

(* ---------------- C05 ---------------- *)
TypeSound == \A i \in 1..Len(reg) : twin[i] = Act(g, reg[i])
(* contraction does not depend on the order of the pairs nor on the order inside a pair;
   the tensor product is commutative up to the block transposition of the indices *)
AlgebraLaws ==
  LET A == reg[Len(reg)] IN
  /\ (A.k >= 2 => \A a \in 1..A.k, b \in 1..A.k : a # b => Contract(A, a, b) = Contract(A, b, a))
  /\ (A.k >= 4 => /\ MultiContract(A, <<<<1, 2>>, <<3, 4>>>>) = MultiContract(A, <<<<3, 4>>, <<1, 2>>>>)
                  /\ MultiContract(A, <<<<1, 2>>, <<3, 4>>>>) = MultiContract(A, <<<<2, 1>>, <<4, 3>>>>)
                  /\ MultiContract(A, <<<<1, 3>>, <<2, 4>>>>) = Contract(Contract(A, 1, 3), 1, 2))
  /\ \A i \in 1..Len(Leaves) :
        (A.k + reg[i].k <= KCap /\ A.k + reg[i].k >= 1) =>
           LET Bi == reg[i]
               sw == [a \in 1..(A.k + Bi.k) |-> IF a <= A.k THEN Bi.k + a ELSE a - A.k]     \* result index a <- index of TProd(B,A)
           IN TProd(A, Bi) = Transpose(TProd(Bi, A), sw)

Snap(A) == [dims |-> A.dims, k |-> A.k, p |-> A.p, val |-> A.val]
Emit == Len(hist) = MaxDepth =>
  PrintT(<<"CASE", ToJson([g |-> [p |-> g.p, s |-> g.s], mat |-> Mat(g), hist |-> hist,
                           reg |-> [i \in 1..Len(reg) |-> Snap(reg[i])], twin |-> [i \in 1..Len(twin) |-> Snap(twin[i])],
                           gcfg |-> CfgG(g, CCfg), gfilter |-> Snap(Act(g, Filter))])>>)
=============================================================================
