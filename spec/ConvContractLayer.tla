-------------------------- MODULE ConvContractLayer --------------------------
(***************************************************************************)
(* Vocabulary: the equivariant linear layer (convolve-and-contract).       *)
(*                                                                         *)
(* Signature level.  The layer is built for an input signature             *)
(* inSig : Seq(<<type, channels>>), a target signature tgtSig and a bank   *)
(* of invariant filters whose key set is bankKeys.  The filter used from   *)
(* input type s to target type t has type (k_s + k_t, (p_s + p_t) mod 2).  *)
(* The output holds exactly the target types reachable through a filter    *)
(* that exists, with the requested channels, in the requested order.       *)
(*                                                                         *)
(* Value level.  out[t] = sum_s ConvContract(x_s, sum_f W[s,t][o,i,f] *    *)
(* bank[ftype(s,t)][f]) + Bias(mode, t); the bias is an additive per-      *)
(* channel constant ONLY for true scalars, a per-channel multiple of the   *)
(* block's spatial mean for any other type ("auto" = True), for every type *)
(* ("mean"), for none ("scalar" leaves non-scalars without bias), or       *)
(* absent (False).  Values are carried as integer numerators over the      *)
(* declared denominator npix (the spatial mean).                           *)
(***************************************************************************)
EXTENDS Convolution

FType(s, t) == <<s[1] + t[1], (s[2] + t[2]) % 2>>
Reachable(inTypes, t, bankKeys) == \E s \in inTypes : FType(s, t) \in bankKeys
Emitted(inSig, tgtSig, bankKeys) ==
  LET inTypes == {inSig[i][1] : i \in 1..Len(inSig)}
      F[i \in 0..Len(tgtSig)] == IF i = 0 THEN <<>>
                                 ELSE IF Reachable(inTypes, tgtSig[i][1], bankKeys) THEN Append(F[i - 1], tgtSig[i]) ELSE F[i - 1]
  IN F[Len(tgtSig)]

Modes == {"auto", "mean", "scalar", "true", "false"}
BiasKind(mode, t) ==
  CASE mode = "false"  -> "none"
    [] mode = "mean"   -> "mean"
    [] mode = "scalar" -> IF t = <<0, 0>> THEN "add" ELSE "none"
    [] OTHER           -> IF t = <<0, 0>> THEN "add" ELSE "mean"          \* "auto" and True

(* ---------------- value level ----------------
   x    : [types : Seq(type), blks : Seq(Seq(image))]            blks[i][c] = channel c of type types[i]
   W    : function on <<si, ti>> (indices) -> [o][i][f] integers
   bank : [types : Seq(type), filts : Seq(Seq(image))]           filters of every bank key
   b    : [ti] -> Seq(Int) per output channel                                                       *)
BankOf(bank, ft) == bank.filts[CHOOSE i \in 1..Len(bank.types) : bank.types[i] = ft]
HasBank(bank, ft) == \E i \in 1..Len(bank.types) : bank.types[i] = ft
LinComb(ws, fs) ==            \* sum_f ws[f] * fs[f]  (images of one type)
  [fs[1] EXCEPT !.val = Eager([n \in 1..Len(fs[1].val) |-> SumSeq([f \in 1..Len(fs) |-> ws[f] * fs[f].val[n]])])]
SpatialSum(A) == LET nc == NComp(A) IN [c \in 1..nc |-> SumSeq([m \in 1..NPix(A) |-> A.val[(m - 1) * nc + c]])]

(* contribution of input type index si to target type index ti, output channel o: an image of type tgt *)
Contribution(c, x, si, tgt, Wst, bank, o) ==
  LET s  == x.types[si]
      fb == BankOf(bank, FType(s, tgt))
      Frow == Eager([i \in 1..Len(x.blks[si]) |-> LinComb(Wst[o][i], fb)])   \* forced: read once per tap
  IN ConvContractOne(c, x.blks[si], Frow)

SumImages(imgs) == [imgs[1] EXCEPT !.val = Eager([n \in 1..Len(imgs[1].val) |-> SumSeq([j \in 1..Len(imgs) |-> imgs[j].val[n]])])]

(* numerator of output channel o of target tgt over the denominator npix(out) *)
LayerOutChan(c, x, tgt, outc, W, b, bank, mode, ti, o) ==
  LET srcs == SubSeqWhereL([si \in 1..Len(x.types) |-> si], LAMBDA si : HasBank(bank, FType(x.types[si], tgt)))
      conv == SumImages(Eager([j \in 1..Len(srcs) |-> Contribution(c, x, srcs[j], tgt, W[<<srcs[j], ti>>], bank, o)]))
      npix == NPix(conv)
      nc   == NComp(conv)
      bk   == BiasKind(mode, tgt)
      ssum == SpatialSum(conv)
  IN [conv EXCEPT !.val = Eager([n \in 1..Len(conv.val) |->
        CASE bk = "none" -> npix * conv.val[n]
          [] bk = "add"  -> npix * (conv.val[n] + b[ti][o])
          [] bk = "mean" -> npix * conv.val[n] + b[ti][o] * ssum[((n - 1) % nc) + 1]])]
=============================================================================
