------------------------------ MODULE Wrappers ------------------------------
(***************************************************************************)
(* Vocabulary (C10): symmetrisation wrappers around an arbitrary inner     *)
(* model.                                                                  *)
(*  GroupAvg   (1/|G|) sum_g  g^-1 . f(g . x)   -- carried as the integer   *)
(*             numerator over the declared denominator |G|.                *)
(*  Inner      a family of deliberately NON-equivariant, nonlinear,        *)
(*             channel-mixing, position-dependent integer maps on multi-   *)
(*             images (same signature in and out), with a Python twin.     *)
(*  Climate    the latitude-band re-layout To1d / From1d between a 2-D     *)
(*             multi-image (lon, lat) and a 1-D multi-image over lon, and  *)
(*             the equator symmetrisation (f(x) + F f(F x)) / 2.           *)
(***************************************************************************)
EXTENDS MultiImage

(* ---------------- inner model family ---------------- *)
InnerModel(mid, m) ==
  LET st == SortTypes(TypeSet(m))
      gl == SumSeq([i \in 1..Len(st) |->
               LET b == Blk(m, st[i]) IN SumSeq([n \in 1..Len(b.val) |-> ((n % 3) + i) * b.val[n]])]) % 5
  IN [m EXCEPT !.blks = Eager([i \in 1..Len(m.order) |->
        LET b == m.blks[i]
            sz == Inner(m, m.order[i])                   \* entries per channel
            C  == b.lead[1]
        IN [lead |-> b.lead,
            val |-> Eager([n \in 1..Len(b.val) |->
               LET c  == (n - 1) \div sz
                   e  == (n - 1) % sz
                   nb == ((c + 1) % C) * sz + e + 1      \* the same entry of the next channel (cyclically)
               IN b.val[n] * b.val[n] + ((e % 3) + 1) * b.val[nb] + mid * (e + 1) + gl - 7])]])]

(* ---------------- group averaging ---------------- *)
RECURSIVE SumMI(_)
SumMI(ms) == IF Len(ms) = 1 THEN ms[1] ELSE AddMI(ms[1], SumMI(Tail(ms)))
SetToSeq(S) == LET RECURSIVE F(_)
                   F(T) == IF T = {} THEN <<>> ELSE LET x == CHOOSE x \in T : TRUE IN <<x>> \o F(T \ {x})
               IN F(S)
GroupAvgNum(G, mid, x) == LET gs == SetToSeq(G) IN SumMI(Eager([j \in 1..Cardinality(G) |-> ActMI(Inv(gs[j]), InnerModel(mid, ActMI(gs[j], x)))]))
Closed(G) == \A a \in G, b \in G : Mul(a, b) \in G
AvgCommutes(G, mid, x) == \A h \in G : EqMI(ActMI(h, GroupAvgNum(G, mid, x)), GroupAvgNum(G, mid, ActMI(h, x)))

(* ---------------- climate latitude bands ---------------- *)
S00 == <<0, 0>>
P01 == <<0, 1>>
V10 == <<1, 0>>
NConstOf(csig, t) == IF \E i \in 1..Len(csig) : csig[i][1] = t THEN csig[CHOOSE i \in 1..Len(csig) : csig[i][1] = t][2] ELSE 0
(* sources feeding the 1-D type u, in the order the re-layout visits the 2-D types (storage order): <<type, channel, comp>> *)
Sources(m, u, T, csig) ==
  FlatCat([i \in 1..Len(m.order) |->
     LET t == m.order[i]  C == (m.blks[i].lead[1] - NConstOf(csig, t)) \div T IN
     IF C = 0 THEN <<>>
     ELSE IF t = u THEN [c \in 1..C |-> <<t, c - 1, 0>>]
     ELSE IF t = V10 /\ u = P01 THEN [c \in 1..C |-> <<t, c - 1, 0>>]          \* longitudinal component -> pseudoscalar
     ELSE IF t = V10 /\ u = S00 THEN [c \in 1..C |-> <<t, c - 1, 1>>]          \* latitudinal component  -> scalar
     ELSE <<>>])
ConstSources(m, u, T, csig) ==
  FlatCat([i \in 1..Len(m.order) |->
     LET t == m.order[i]  nc == NConstOf(csig, t)  C == (m.blks[i].lead[1] - nc) IN
     IF t = u /\ nc > 0 THEN [q \in 1..nc |-> <<t, C + q - 1, 0>>] ELSE <<>>])
To1d(m, T, csig) ==
  LET nlon == m.dims[1]  nlat == m.dims[2]
      us == SubSeqWhere(<<S00, P01>>, LAMBDA i : Sources(m, <<S00, P01>>[i], T, csig) # <<>> \/ ConstSources(m, <<S00, P01>>[i], T, csig) # <<>>)
      \* order in which the 1-D types are created: first by dynamic visiting order, then constants
      Val(t, ch, comp, lon, lat) == LET nc == Pow(2, t[1]) IN Blk(m, t).val[((ch * nlon + lon) * nlat + lat) * nc + comp + 1]
  IN [d |-> 1, dims |-> <<nlon>>, torus |-> <<TRUE>>, order |-> us,
      blks |-> Eager([i \in 1..Len(us) |->
         LET src == Sources(m, us[i], T, csig)  C == Len(src)  cs == ConstSources(m, us[i], T, csig)
             rowsD == nlat * C * T  rowsC == nlat * Len(cs)
         IN [lead |-> <<rowsD + rowsC>>,
             val |-> Eager([n \in 1..((rowsD + rowsC) * nlon) |->
                LET r == (n - 1) \div nlon  lon == (n - 1) % nlon IN
                IF r < rowsD
                THEN LET lat == r \div (C * T)  ci == (r % (C * T)) \div T  tt == r % T  s == src[ci + 1]
                     IN Val(s[1], s[2] * T + tt, s[3], lon, lat)
                ELSE LET rc == r - rowsD  lat == rc \div Len(cs)  q == rc % Len(cs)  s == cs[q + 1]
                     IN Val(s[1], s[2], 0, lon, lat)])]])]

(* From1d for an output signature osig : Seq(<<type, channels>>) (2-D types), F future steps, extents (nlon, nlat) *)
From1d(y, osig, F, nlon, nlat, torus2) ==
  LET cOf(t) == IF \E i \in 1..Len(osig) : osig[i][1] = t THEN osig[CHOOSE i \in 1..Len(osig) : osig[i][1] = t][2] \div F ELSE 0
      cs == cOf(S00)  cp == cOf(P01)  cv == cOf(V10)
      Row(u, lat, c, t, C) == (lat * C + c) * F + t          \* row of the 1-D block of type u holding band lat, channel c, step t
      Y(u, row, lon) == Blk(y, u).val[row * nlon + lon + 1]
      types == SubSeqWhere(<<S00, P01, V10>>, LAMBDA i : cOf(<<S00, P01, V10>>[i]) > 0)
  IN [d |-> 2, dims |-> <<nlon, nlat>>, torus |-> torus2, order |-> types,
      blks |-> Eager([i \in 1..Len(types) |->
         LET t == types[i]  C == cOf(t)  nc == Pow(2, t[1]) IN
         [lead |-> <<C * F>>,
          val |-> Eager([n \in 1..(C * F * nlon * nlat * nc) |->
             LET comp == (n - 1) % nc  px == (n - 1) \div nc
                 lat == px % nlat  lon == (px \div nlat) % nlon  ch == px \div (nlat * nlon)
                 c == ch \div F  tt == ch % F
             IN IF t = S00 THEN Y(S00, Row(S00, lat, c, tt, cs + cv), lon)
                ELSE IF t = P01 THEN Y(P01, Row(P01, lat, c, tt, cp + cv), lon)
                ELSE IF comp = 0 THEN Y(P01, Row(P01, lat, cp + c, tt, cp + cv), lon)
                ELSE Y(S00, Row(S00, lat, cs + c, tt, cs + cv), lon)])]])]

FlipLon  == [p |-> <<1, 2>>, s |-> <<-1, 1>>]
FlipLat  == [p |-> <<1, 2>>, s |-> <<1, -1>>]           \* the equator reflection
Flip1    == [p |-> <<1>>, s |-> <<-1>>]
CanonOrder(m) == m.order = SubSeqWhere(<<S00, P01, V10>>, LAMBDA i : Has(m, <<S00, P01, V10>>[i]))
ClimateLaws(m, T) ==
  /\ (CanonOrder(m) => From1d(To1d(m, T, <<>>), Signature(m), T, m.dims[1], m.dims[2], m.torus) = m)         \* lossless
  /\ EqMI(To1d(ActMI(FlipLon, m), T, <<>>), ActMI(Flip1, To1d(m, T, <<>>)))                                 \* lon flip -> 1-D flip
(* equator symmetrisation of an arbitrary inner 1-D model (numerator over 2) *)
ClimateNum(mid, m, T) ==
  LET f(z) == From1d(InnerModel(mid, To1d(z, T, <<>>)), Signature(m), T, m.dims[1], m.dims[2], m.torus)
  IN AddMI(f(m), ActMI(FlipLat, f(ActMI(FlipLat, m))))
ClimateCommutes(mid, m, T) == EqMI(ClimateNum(mid, ActMI(FlipLat, m), T), ActMI(FlipLat, ClimateNum(mid, m, T)))

(* ... with constant fields: the 2-D input carries nc constant channels after the C*T dynamic ones of a type; the 1-D inner
   model READS the constant rows (they reach every output entry through the channel mixing and the global term of InnerModel)
   but returns the dynamic rows only, which is the layout From1d expects for the (dynamic) output signature *)
RowsD(m, u, T, csig) == m.dims[2] * Len(Sources(m, u, T, csig)) * T
InnerModelC(mid, y, m, T, csig) ==
  LET z == InnerModel(mid, y) IN
  [z EXCEPT !.blks = Eager([i \in 1..Len(z.order) |->
      LET rd == RowsD(m, z.order[i], T, csig) IN
      [lead |-> <<rd>>, val |-> Eager(SubSeq(z.blks[i].val, 1, rd * m.dims[1]))]])]
DynSig(m, csig) == [i \in 1..Len(m.order) |-> <<m.order[i], m.blks[i].lead[1] - NConstOf(csig, m.order[i])>>]
ClimateNumC(mid, m, T, csig) ==
  LET f(z) == From1d(InnerModelC(mid, To1d(z, T, csig), z, T, csig), DynSig(m, csig), T, m.dims[1], m.dims[2], m.torus)
  IN AddMI(f(m), ActMI(FlipLat, f(ActMI(FlipLat, m))))
ClimateCommutesC(mid, m, T, csig) == EqMI(ClimateNumC(mid, ActMI(FlipLat, m), T, csig), ActMI(FlipLat, ClimateNumC(mid, m, T, csig)))
=============================================================================
