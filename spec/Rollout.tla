------------------------------- MODULE Rollout -------------------------------
(***************************************************************************)
(* Machine: the autoregressive rollout.  The model input holds, per tensor *)
(* type, c dynamic channels x `Past` past steps (time minor) followed by   *)
(* the constant fields of that type; constant-only types have no dynamic   *)
(* part.  One step: pred = Model(window); every dynamic channel drops its  *)
(* oldest past step and appends the prediction as the newest; constants    *)
(* stay where they are; the type (storage) order is unchanged.             *)
(* Second formulation (closed form): after n steps channel c holds the     *)
(* last `Past` frames of  initial frames \o predictions 1..n.              *)
(* Model is a family of history-sensitive integer maps (distinct weight    *)
(* per past slot, constants and a cross-type term, mod 97) with a line-    *)
(* for-line Python twin in the harness, so a wrong window order changes    *)
(* every later prediction.                                                 *)
(***************************************************************************)
EXTENDS MultiImage, TLC, Json

CONSTANTS D, Dims, Torus,
          Sig,        \* Seq(<<type, cdyn, nconst>>)
          Past, NSteps, ModelId,
          Orders      \* storage orders of the input (sequences of indices into Sig)

VARIABLES window, init, outs, ord, wins
vars == <<window, init, outs, ord, wins>>

P97 == 97
SigOf(t)  == Sig[CHOOSE i \in 1..Len(Sig) : Sig[i][1] = t]
CDyn(t)   == SigOf(t)[2]
NConst(t) == SigOf(t)[3]
Chan(t)   == CDyn(t) * Past + NConst(t)
Frame(m, t, u) == LET inner == Inner(m, t) IN SubSeq(Blk(m, t).val, u * inner + 1, (u + 1) * inner)      \* channel u (0-based)

Fresh(o) == [d |-> D, dims |-> Dims, torus |-> Torus,
             order |-> [j \in 1..Len(o) |-> Sig[o[j]][1]],
             blks |-> Eager([j \in 1..Len(o) |->
                LET t == Sig[o[j]][1]  n == Chan(t) * ProdSeq(Dims) * Pow(D, t[1])
                IN [lead |-> <<Chan(t)>>, val |-> Eager([m \in 1..n |-> ((o[j] * 131 + m * 7919) % 23)])]])]

(* ---- the model family ---- *)
SortedTypes(m) == SortTypes(TypeSet(m))
Global(m) == SumSeq([i \in 1..Len(SortedTypes(m)) |->
                LET t == SortedTypes(m)[i] IN
                SumSeq([u \in 1..Chan(t) |-> (u + i) * Frame(m, t, u - 1)[1]])]) % P97
Model(m) ==
  LET dynTypes == SubSeqWhere(m.order, LAMBDA i : CDyn(m.order[i]) > 0)
      G == Global(m)
  IN [m EXCEPT !.order = dynTypes,
        !.blks = Eager([i \in 1..Len(dynTypes) |->
           LET t == dynTypes[i]  inner == Inner(m, t) IN
           [lead |-> <<CDyn(t)>>,
            val |-> Eager([n \in 1..(CDyn(t) * inner) |->
               LET c == (n - 1) \div inner  e == ((n - 1) % inner) + 1 IN
               (SumSeq([j \in 1..Past |-> (j + ModelId) * Frame(m, t, c * Past + j - 1)[e]])
                + (5 + ModelId) * SumSeq([q \in 1..NConst(t) |-> q * Frame(m, t, CDyn(t) * Past + q - 1)[e]])
                + G) % P97])]])]

(* ---- one rollout step on the window ---- *)
Advance(m, pred) ==
  [m EXCEPT !.blks = Eager([i \in 1..Len(m.order) |->
     LET t == m.order[i]  inner == Inner(m, t) IN
     IF CDyn(t) = 0 THEN m.blks[i]
     ELSE [lead |-> m.blks[i].lead,
           val |-> Eager([n \in 1..Len(m.blks[i].val) |->
              LET u == (n - 1) \div inner  e == ((n - 1) % inner) + 1 IN
              IF u >= CDyn(t) * Past THEN m.blks[i].val[n]                                   \* constants: untouched, in place
              ELSE LET c == u \div Past  j == u % Past IN
                   IF j < Past - 1 THEN Frame(m, t, c * Past + j + 1)[e]                      \* shift: drop the oldest
                   ELSE Frame(pred, t, c)[e]])]])]                                              \* newest = the prediction

Init == \E o \in Orders : ord = o /\ init = Fresh(o) /\ window = Fresh(o) /\ outs = <<>> /\ wins = <<>>
Step == /\ Len(outs) < NSteps
        /\ LET pred == Model(window) IN
           /\ outs' = Append(outs, pred)
           /\ window' = Advance(window, pred)
           /\ wins' = Append(wins, Advance(window, pred))
        /\ UNCHANGED <<init, ord>>
Next == Step

(* ---- closed form and the properties of C16 ---- *)
History(t, c) == [j \in 1..Past |-> Frame(init, t, c * Past + j - 1)] \o [s \in 1..Len(outs) |-> Frame(outs[s], t, c)]
ClosedForm ==
  /\ window.order = init.order                                                              \* type order unchanged
  /\ \A i \in 1..Len(window.order) :
       LET t == window.order[i] IN
       /\ window.blks[i].lead = init.blks[i].lead
       /\ \A q \in 1..NConst(t) : Frame(window, t, CDyn(t) * Past + q - 1) = Frame(init, t, CDyn(t) * Past + q - 1)
       /\ \A c \in 0..(CDyn(t) - 1), j \in 1..Past :
            Frame(window, t, c * Past + j - 1) = History(t, c)[Len(outs) + j]                \* last Past frames of the history
(* what autoregressive_map returns: per dynamic type, channel c, the predictions in time order (time minor) *)
RolloutOut == [t \in {SortedTypes(init)[i] : i \in {i \in 1..Len(SortedTypes(init)) : CDyn(SortedTypes(init)[i]) > 0}} |->
                 FlatCat([n \in 1..(CDyn(t) * Len(outs)) |-> Frame(outs[((n - 1) % Len(outs)) + 1], t, (n - 1) \div Len(outs))])]

Snap(m) == [order |-> m.order, leads |-> [i \in 1..Len(m.order) |-> m.blks[i].lead], vals |-> [i \in 1..Len(m.order) |-> m.blks[i].val],
            d |-> m.d, dims |-> m.dims, torus |-> m.torus]
Emit == Len(outs) = NSteps =>
  PrintT(<<"CASE", ToJson([sig |-> Sig, past |-> Past, nsteps |-> NSteps, model |-> ModelId, ord |-> ord,
                           init |-> Snap(init), preds |-> [s \in 1..Len(outs) |-> Snap(outs[s])], final |-> Snap(window), windows |-> [s \in 1..Len(wins) |-> Snap(wins[s])],
                           outtypes |-> SortTypes(DOMAIN RolloutOut), out |-> [i \in 1..Cardinality(DOMAIN RolloutOut) |-> RolloutOut[SortTypes(DOMAIN RolloutOut)[i]]]])>>)
=============================================================================
