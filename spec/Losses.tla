------------------------------- MODULE Losses -------------------------------
(***************************************************************************)
(* Vocabulary: the losses as exact integer numerators over declared        *)
(* denominators.  Arguments are multi-images whose blocks have shape       *)
(* (batch, channels, spatial, tensor); prediction and target blocks are    *)
(* paired BY TYPE.                                                         *)
(*   smse(e)        = SmseNum(a,b)[e] / npix          (then mean over e)   *)
(*   step(e,s)      = StepNum(a,b,S)[e][s] / npix     channel = c*S + s    *)
(*   normalised(e)  = sum over (type,channel,pixel) of num/(den+eps) / npix*)
(*                    with num = sum_comp diff^2, den = |target pixel|^2   *)
(***************************************************************************)
EXTENDS MultiImage, SequencesExt

Batch(m)  == m.blks[1].lead[1]
NPixMI(m) == ProdSeq(m.dims)
Sq(x)     == x * x
(* entries of batch entry e (1-based) of block i, as a sub-sequence *)
EntryVals(m, i, e) == LET per == Len(m.blks[i].val) \div m.blks[i].lead[1]
                      IN SubSeq(m.blks[i].val, (e - 1) * per + 1, e * per)

SmseNum(a, b) ==
  [e \in 1..Batch(a) |->
     SumSeq([i \in 1..Len(a.order) |->
        LET va == EntryVals(a, i, e)  vb == EntryVals(b, Idx(b, a.order[i]), e)
        IN SumSeq([n \in 1..Len(va) |-> Sq(va[n] - vb[n])])])]

(* per time step: channels are (c, step) with the step index minor *)
StepNum(a, b, S) ==
  [e \in 1..Batch(a) |-> [s \in 1..S |->
     SumSeq([i \in 1..Len(a.order) |->
        LET va == EntryVals(a, i, e)  vb == EntryVals(b, Idx(b, a.order[i]), e)
            inner == Inner(a, a.order[i])                        \* entries per channel
            nch == Len(va) \div inner
        IN SumSeq([n \in 1..Len(va) |-> IF (((n - 1) \div inner) % S) + 1 = s THEN Sq(va[n] - vb[n]) ELSE 0])])]]

(* normalised variant: one <<num, den>> term per (type, channel, pixel) of batch entry e; den from the TARGET b *)
NormTerms(a, b) ==
  [e \in 1..Batch(a) |->
     FlatCat([i \in 1..Len(b.order) |->
        LET vb == EntryVals(b, i, e)  va == EntryVals(a, Idx(a, b.order[i]), e)
            nc == Pow(b.d, b.order[i][1])
        IN [q \in 1..(Len(vb) \div nc) |->
              <<SumSeq([c \in 1..nc |-> Sq(va[(q - 1) * nc + c] - vb[(q - 1) * nc + c])]),
                SumSeq([c \in 1..nc |-> Sq(vb[(q - 1) * nc + c])])>>]])]

SumAll(s) == SumSeq(s)
RowSums(mx) == [e \in 1..Len(mx) |-> SumSeq(mx[e])]
PairLess(x, y) == x[1] < y[1] \/ (x[1] = y[1] /\ x[2] < y[2])
BagOf(s) == SortSeq(s, PairLess)                       \* canonical form of the multiset of <<num, den>> terms
=============================================================================
