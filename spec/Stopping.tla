------------------------------ MODULE Stopping ------------------------------
(***************************************************************************)
(* Machine: a stopping condition observing one monitored loss per epoch.   *)
(*                                                                         *)
(* Kind = "patience": TrainLoss / ValLoss (the monitored quantity differs, *)
(*   the rule is the same).  Operational rule (what an implementation     *)
(*   does, one step per epoch) against a declarative reading of the        *)
(*   property (recomputed from the whole history): they must agree at      *)
(*   every epoch of every history.                                         *)
(* Kind = "epochs": EpochStop -- stop iff epoch >= Epochs, hand back the   *)
(*   last model.                                                           *)
(*                                                                         *)
(* Losses are integers here; the harness delivers them to the code as      *)
(* Python float, numpy.float32, numpy.float64 and 0-d JAX arrays -- the    *)
(* representation is deliberately NOT part of the state: the property says *)
(* it must not matter.  Models are identified with the epoch that produced *)
(* them (model 0 = the initial model).                                     *)
(***************************************************************************)
EXTENDS Integers, Sequences

CONSTANTS Kind, Patience, MinDelta, Epochs, Alphabet

VARIABLES epoch, hist, best, bestEpoch, since, stopped
svars == <<epoch, hist, best, bestEpoch, since, stopped>>

INF == 1000000

(* `stopped` after the call that precedes the first epoch (epoch 0, no loss yet): a patience condition cannot stop there; the *)
(* epoch-count condition is already met when Epochs = 0 and hands back the model it was given                              *)
SInit == /\ epoch = 0 /\ hist = <<>> /\ best = INF /\ bestEpoch = 0 /\ since = 0 /\ stopped = (Kind = "epochs" /\ Epochs <= 0)

(* one call of stop(model_of_epoch, epoch, loss) after an epoch *)
Observe(l) ==
  /\ ~stopped
  /\ epoch' = epoch + 1
  /\ hist' = Append(hist, l)
  /\ IF Kind = "patience"
     THEN /\ IF l < best - MinDelta
             THEN best' = l /\ bestEpoch' = epoch + 1 /\ since' = 0
             ELSE UNCHANGED <<best, bestEpoch>> /\ since' = since + 1
          /\ stopped' = (since' > Patience)
     ELSE /\ best' = l /\ bestEpoch' = epoch + 1 /\ since' = 0        \* EpochStop keeps the last model
          /\ stopped' = (epoch' >= Epochs)

SNext == \E l \in Alphabet : Observe(l)

(* ---------------- declarative reading of C19, recomputed from the history ---------------- *)
RECURSIVE BestAt(_, _)
BestAt(h, i)   == IF i = 0 THEN INF
                  ELSE LET b == BestAt(h, i - 1) IN IF h[i] < b - MinDelta THEN h[i] ELSE b
Improves(h, j) == h[j] < BestAt(h, j - 1) - MinDelta          \* improves on the best so far by more than MinDelta
LastImp(h, i)  == IF \E j \in 1..i : Improves(h, j)
                  THEN CHOOSE j \in 1..i : Improves(h, j) /\ \A j2 \in (j + 1)..i : ~Improves(h, j2)
                  ELSE 0
StopDecl(h, i) == i - LastImp(h, i) > Patience                \* failed to improve for more than Patience epochs

Agree ==
  IF Kind = "patience"
  THEN /\ stopped = (hist # <<>> /\ StopDecl(hist, Len(hist)))            \* stops exactly when specified ...
       /\ \A i \in 1..(Len(hist) - 1) : ~StopDecl(hist, i)                 \* ... never earlier (it kept running)
       /\ bestEpoch = LastImp(hist, Len(hist))                             \* hands back the best epoch's model
       /\ best = BestAt(hist, Len(hist))
       /\ since = Len(hist) - LastImp(hist, Len(hist))
       /\ since <= Patience + 1 /\ (stopped <=> since = Patience + 1)      \* terminates on a non-improving suffix
  ELSE /\ stopped = (epoch >= Epochs) /\ epoch <= Epochs
       /\ bestEpoch = epoch
=============================================================================
