---------------------------- MODULE EquivCalculus ----------------------------
(***************************************************************************)
(* A typing calculus for the data flow INSIDE the equivariant layers       *)
(* (C06-C09: "for every value of the learnable parameters").               *)
(*                                                                         *)
(* A value inside a layer is a block (channels, pixels, tensor components).*)
(* Its TRANSFORMATION TYPE says how it changes when the layer's input x is *)
(* replaced by g.x, g in the group G of the filter bank:                   *)
(*   F(k,p)  a field:  v |-> det(g)^p g^{(x)k} v(g^-1 .)   (pixels move)   *)
(*   C(k,p)  a spatial constant per channel / channel group: same law      *)
(*           without pixel movement;  INV == C(0,0): does not change at all*)
(*           (learnable numbers that carry NO tensor-component axis, eps)  *)
(*   BAD     no transformation law (e.g. a learnable array with one number *)
(*           per tensor component: a fixed, non-invariant tensor)          *)
(* A layer is a sequence of nodes (a data-flow graph in topological order);*)
(* Rule gives the type of a node from the types of its arguments.  Each    *)
(* rule is a one-line lemma of tensor calculus (stated next to it); the    *)
(* (multi)linear ones are model-checked at value level by ImageProgram /   *)
(* Pooling / ConvContractLayer.  A layer is WELL TYPED when its output node*)
(* has the declared type F(k,p) of the block it returns: then it commutes  *)
(* with every g in G WHATEVER the values of its parameters are, because    *)
(* parameters only ever enter through INV-typed nodes.                     *)
(*                                                                         *)
(* The graphs below are transcriptions of ml/layers.py; they are bound to  *)
(* the code by harness/equivcalc.py, which executes the emitted graph with *)
(* the real layer's parameter arrays and compares with the real layer on   *)
(* random inputs and perturbed parameters (generic-point argument), and    *)
(* checks that every parameter the graph declares "per channel" really has *)
(* extent 1 on all tensor axes.                                            *)
(***************************************************************************)
EXTENDS Integers, Sequences, FiniteSets, TLC, Json

F(k, p) == [sp |-> "field", k |-> k, p |-> p]
C(k, p) == [sp |-> "const", k |-> k, p |-> p]
INV == C(0, 0)
BAD == [sp |-> "bad", k |-> 0, p |-> 0]
IsBad(t) == t.sp = "bad"
Sp(a, b) == IF a.sp = "field" \/ b.sp = "field" THEN "field" ELSE "const"
Px(a, b) == (a + b) % 2
T(sp, k, p) == [sp |-> sp, k |-> k, p |-> p]
SameKP(a, b) == a.k = b.k /\ a.p = b.p

(* a node: operation, argument positions (earlier nodes), three integer attributes, a string attribute, and -- for *)
(* parameters -- where the harness finds the array in the real layer                                               *)
Node(op, a, k, p, o, s, src) == [op |-> op, a |-> a, k |-> k, p |-> p, o |-> o, s |-> s, src |-> src]
N0(op, a) == Node(op, a, 0, 0, 0, "", "")

Rule(n, ts) ==
  LET x == IF Len(n.a) >= 1 THEN ts[n.a[1]] ELSE BAD
      y == IF Len(n.a) >= 2 THEN ts[n.a[2]] ELSE BAD
      anyBad == \E j \in 1..Len(n.a) : IsBad(ts[n.a[j]])
  IN IF anyBad THEN BAD
     ELSE CASE n.op = "input"   -> F(n.k, n.p)                         \* the block the layer receives
          (* a learnable array: "channel" = one number per channel (pair), no tensor axis -> invariant;            *)
          (* "component" = one number per tensor component of an order >= 1 block -> a fixed non-invariant tensor *)
          [] n.op = "param"   -> IF n.s = "channel" THEN INV ELSE BAD
          [] n.op = "eps"     -> INV
          (* channel mixing by an invariant matrix: linear in x, acts on the channel axis only *)
          [] n.op = "mix"     -> IF x = INV THEN y ELSE BAD
          (* sums need equal (k,p); a constant broadcasts over pixels.  In particular INV can be added to (0,0) only *)
          [] n.op \in {"add", "sub"} -> IF SameKP(x, y) THEN T(Sp(x, y), x.k, x.p) ELSE BAD
          (* product with an order-0 factor: (0,p1) x (k,p2) -> (k, p1+p2).  A component-wise product of two tensors  *)
          (* of order >= 1 has no law                                                                                 *)
          [] n.op = "mul"     -> IF x.k = 0 THEN T(Sp(x, y), y.k, Px(x.p, y.p))
                                 ELSE IF y.k = 0 THEN T(Sp(x, y), x.k, Px(x.p, y.p)) ELSE BAD
          [] n.op = "div"     -> IF y.k = 0 THEN T(Sp(x, y), x.k, Px(x.p, y.p)) ELSE BAD
          (* spatial mean (over pixels and possibly the channels of a group): the permutation of pixels drops out *)
          [] n.op = "smean"   -> IF x.sp = "field" THEN C(x.k, x.p) ELSE x
          (* full contraction of two order-k tensors; Frobenius norm; absolute value of an order-0 quantity *)
          [] n.op = "inner"   -> IF x.k = y.k THEN T(Sp(x, y), 0, Px(x.p, y.p)) ELSE BAD
          [] n.op = "norm"    -> T(x.sp, 0, 0)
          [] n.op = "abs"     -> IF x.k = 0 THEN T(x.sp, 0, 0) ELSE BAD
          (* a pointwise nonlinearity: on true scalars always; on pseudoscalars only if it is odd; never on components *)
          [] n.op = "act"     -> IF x.k = 0 /\ (x.p = 0 \/ n.s = "odd") THEN x ELSE BAD
          [] n.op = "rsqrt"   -> IF x.k = 0 /\ x.p = 0 THEN x ELSE BAD
          (* covariance of a vector field over pixels (and group channels): sum of v v^T, parity p+p = 0 *)
          [] n.op = "cov"     -> IF x.k = 1 /\ x.sp = "field" THEN C(2, 0) ELSE BAD
          (* M + e I: the identity is an invariant (2,0) tensor.  (Adding e to EVERY entry is "add" of INV to (2,0): BAD) *)
          [] n.op = "ridge"   -> IF x.k = 2 /\ x.p = 0 /\ y = INV THEN x ELSE BAD
          (* U f(L) U^T of a symmetric (2,0) tensor, f possibly depending on an invariant number: g M g^T has the same  *)
          (* eigenvalues and rotated eigenvectors                                                                        *)
          [] n.op = "specfun" -> IF x.k = 2 /\ x.p = 0 /\ (Len(n.a) = 1 \/ y = INV) THEN x ELSE BAD
          (* the Cholesky factor of g M g^T is not g L g^T *)
          [] n.op = "chol"    -> BAD
          [] n.op = "matvec"  -> IF x.k = 2 /\ y.k = 1 THEN T(Sp(x, y), 1, Px(x.p, y.p)) ELSE BAD
          (* convolution with an invariant filter of type (n.k, n.p) contracted down to order n.o (C01 + C05) *)
          [] n.op = "convc"   -> IF x.sp = "field" /\ (x.k + n.k - n.o) % 2 = 0 /\ n.o <= x.k + n.k /\ n.o >= 0
                                 THEN F(n.o, Px(x.p, n.p)) ELSE BAD
          (* per patch, the pixel where a TRUE scalar comparator is largest (unique-maximum assumption) *)
          [] n.op = "select"  -> IF x = F(0, 0) /\ y.sp = "field" THEN y ELSE BAD
          [] n.op \in {"avgpool", "unpool", "stopgrad"} -> x
          [] n.op = "concat"  -> IF x = y THEN x ELSE BAD
          [] OTHER -> BAD

RECURSIVE Build(_, _)
Build(G, ts) == IF Len(ts) = Len(G) THEN ts ELSE Build(G, Append(ts, Rule(G[Len(ts) + 1], ts)))
Types(G) == Build(G, <<>>)
Closed(G) == \A i \in 1..Len(G) : \A j \in 1..Len(G[i].a) : G[i].a[j] < i     \* topological order
OutType(L) == Types(L.g)[L.out]
WellTyped(L) == Closed(L.g) /\ OutType(L) = L.decl

(***************************************************************************)
(* Layer graphs.  Each constructor appends the layer's nodes to a graph G  *)
(* whose node i is the layer's input of type F(k,p) and returns the new    *)
(* graph and the position of the layer's output.                           *)
(***************************************************************************)
Par(src) == Node("param", <<>>, 0, 0, 0, "channel", src)
ParC(src) == Node("param", <<>>, 0, 0, 0, "component", src)
Eps == Node("eps", <<>>, 0, 0, 0, "", "eps")
Ext(G, ns) == G \o ns

(* ConvContract for ONE (source type, target type) pair followed by the target's bias branch (layers.py __call__) *)
BiasKind(mode, ok, op) ==
  IF mode \in {"none"} THEN "nothing"
  ELSE IF ok = 0 /\ op = 0 /\ mode \in {"scalar", "auto"} THEN "additive"
  ELSE IF ((ok # 0 \/ op # 0) /\ mode = "auto") \/ mode = "mean" THEN "meanscale"
  ELSE "nothing"
ConvContractG(G, i, k, p, fk, fp, ok, mode) ==
  LET b == Len(G)
      op == Px(p, fp)
      conv == <<Par("weights"), N0("mix", <<b + 1, i>>), Node("convc", <<b + 2>>, fk, fp, ok, "", "")>>   \* b+1..b+3
      kind == BiasKind(mode, ok, op)
  IN IF kind = "additive" THEN [g |-> Ext(G, conv \o <<Par("bias"), N0("add", <<b + 3, b + 4>>)>>), out |-> b + 5]
     ELSE IF kind = "meanscale"
          THEN [g |-> Ext(G, conv \o <<N0("smean", <<b + 3>>), Par("bias"), N0("mul", <<b + 5, b + 4>>), N0("add", <<b + 3, b + 6>>)>>), out |-> b + 7]
     ELSE [g |-> Ext(G, conv), out |-> b + 3]

(* GroupNorm / LayerNorm on one block *)
ScalarWhiten(b, i) ==            \* eqx.nn.GroupNorm without the affine part: nodes b+1..b+8, output b+8
  <<Node("smean", <<i>>, 0, 0, 0, "group", ""), N0("sub", <<i, b + 1>>), N0("mul", <<b + 2, b + 2>>),
    Node("smean", <<b + 3>>, 0, 0, 0, "group", ""), Eps, N0("add", <<b + 4, b + 5>>), N0("rsqrt", <<b + 6>>), N0("mul", <<b + 7, b + 2>>)>>
GroupNormG(G, i, k, p) ==
  LET b == Len(G) IN
  IF k = 0 /\ p = 0 THEN [g |-> Ext(G, ScalarWhiten(b, i) \o <<Par("vanilla.weight"), N0("mul", <<b + 9, b + 8>>), Par("vanilla.bias"), N0("add", <<b + 10, b + 11>>)>>), out |-> b + 12]
  ELSE IF k = 0 THEN [g |-> Ext(G, ScalarWhiten(b, i) \o <<Par("scale"), N0("mul", <<b + 9, b + 8>>)>>), out |-> b + 10]
  ELSE [g |-> Ext(G, <<Node("smean", <<i>>, 0, 0, 0, "channel", ""),        \* b+1 mean_vec
                       Node("smean", <<i>>, 0, 0, 0, "group", ""),          \* b+2
                       N0("sub", <<i, b + 2>>),                             \* b+3 centred
                       Node("cov", <<b + 3>>, 0, 0, 0, "group", ""),        \* b+4
                       Eps,                                                 \* b+5
                       Node("specfun", <<b + 4, b + 5>>, 0, 0, 0, "invsqrt", ""),   \* b+6
                       N0("matvec", <<b + 6, b + 3>>),                      \* b+7 whitened
                       Par("scale"), N0("mul", <<b + 8, b + 7>>),           \* b+8, b+9
                       Par("bias"), N0("mul", <<b + 10, b + 1>>),           \* b+10, b+11
                       N0("add", <<b + 9, b + 11>>)>>), out |-> b + 12]

(* VectorNeuronNonlinear on one block *)
VNG(G, i, k, p) ==
  LET b == Len(G) IN
  IF k = 0 /\ p = 0 THEN [g |-> Ext(G, <<Node("act", <<i>>, 0, 0, 0, "any", "")>>), out |-> b + 1]
  ELSE [g |-> Ext(G, <<Par("weights"), N0("mix", <<b + 1, i>>),               \* b+2 k_vec
                       N0("norm", <<b + 2>>), Eps, N0("add", <<b + 3, b + 4>>), N0("div", <<b + 2, b + 5>>),   \* b+6 k_vec_normed
                       N0("inner", <<i, b + 6>>),                             \* b+7
                       N0("mul", <<b + 7, b + 6>>),                           \* b+8 v_parallel
                       N0("sub", <<i, b + 8>>),                               \* b+9 v_perp
                       Node("act", <<b + 7>>, 0, 0, 0, "any", ""),            \* b+10
                       N0("abs", <<b + 7>>), Eps, N0("add", <<b + 11, b + 12>>), N0("div", <<b + 10, b + 13>>),   \* b+14 h
                       N0("mul", <<b + 14, b + 8>>), N0("add", <<b + 15, b + 9>>)>>), out |-> b + 16]

(* MaxNormPool on one block *)
MaxNormPoolG(G, i, k, p, useNorm) ==
  LET b == Len(G) IN
  IF useNorm THEN [g |-> Ext(G, <<N0("norm", <<i>>), N0("select", <<b + 1, i>>)>>), out |-> b + 2]
  ELSE [g |-> Ext(G, <<N0("select", <<i, i>>)>>), out |-> b + 1]

AvgPoolG(G, i) == [g |-> Ext(G, <<N0("avgpool", <<i>>)>>), out |-> Len(G) + 1]
ResidualG(G, i, j) == [g |-> Ext(G, <<N0("add", <<i, j>>)>>), out |-> Len(G) + 1]
InputG(k, p) == <<Node("input", <<>>, k, p, 0, "", "")>>
Layer(r, k, p) == [g |-> r.g, out |-> r.out, decl |-> F(k, p)]

(***************************************************************************)
(* Deviations that are NOT equivariant (each is a realistic edit of        *)
(* layers.py); the calculus must reject every one of them.                 *)
(***************************************************************************)
ReplaceNode(G, j, n) == [G EXCEPT ![j] = n]
Deviations(k, p) ==
  LET G0 == InputG(k, p)
      gn == GroupNormG(G0, 1, k, p)
      vn == VNG(G0, 1, k, p)
  IN (IF k = 0 /\ p = 1 THEN     \* additive bias / pointwise activation / signed max on a pseudoscalar
        {[name |-> "gn-additive-bias-pseudoscalar", g |-> Ext(gn.g, <<Par("bias"), N0("add", <<gn.out, Len(gn.g) + 1>>)>>), out |-> Len(gn.g) + 2],
         [name |-> "pointwise-act-pseudoscalar", g |-> Ext(G0, <<Node("act", <<1>>, 0, 0, 0, "any", "")>>), out |-> 2],
         [name |-> "signed-max-pseudoscalar", g |-> MaxNormPoolG(G0, 1, k, p, FALSE).g, out |-> 2],
         [name |-> "conv-additive-bias-pseudoscalar", g |-> Ext(G0, <<Par("bias"), N0("add", <<1, 2>>)>>), out |-> 3]}
      ELSE {})
     \cup (IF k = 1 THEN
        {[name |-> "gn-cholesky", g |-> ReplaceNode(gn.g, 7, N0("chol", <<5>>)), out |-> gn.out],
         [name |-> "gn-scale-per-component", g |-> ReplaceNode(gn.g, 9, ParC("scale")), out |-> gn.out],
         [name |-> "gn-bias-per-component", g |-> ReplaceNode(gn.g, 11, ParC("bias")), out |-> gn.out],
         [name |-> "gn-eps-on-every-cov-entry", g |-> ReplaceNode(gn.g, 7, N0("add", <<5, 6>>)), out |-> gn.out],
         [name |-> "gn-bias-not-times-mean", g |-> ReplaceNode(gn.g, 12, N0("stopgrad", <<11>>)) , out |-> gn.out],
         [name |-> "mean-bias-per-component", g |-> Ext(G0, <<N0("smean", <<1>>), ParC("bias"), N0("mul", <<3, 2>>), N0("add", <<1, 4>>)>>), out |-> 5]}
      ELSE {})
     \cup (IF k >= 1 \/ p = 1 THEN
        {[name |-> "vn-eps-inside-norm", g |-> Ext(G0, <<Par("weights"), N0("mix", <<2, 1>>), Eps, N0("add", <<3, 4>>), N0("norm", <<5>>), N0("div", <<3, 6>>)>>), out |-> 7],
         [name |-> "vn-act-on-components", g |-> Ext(G0, <<Node("act", <<1>>, 0, 0, 0, "any", "")>>), out |-> 2],
         [name |-> "additive-bias-nonscalar", g |-> Ext(G0, <<Par("bias"), N0("add", <<1, 2>>)>>), out |-> 3]}
      ELSE {})
=============================================================================
