------------------------------ MODULE Benchmark ------------------------------
(***************************************************************************)
(* Machine: ginjax's benchmarking loop (ml.benchmark) as seen from the     *)
(* callables the user hands in.                                            *)
(*                                                                         *)
(*   data --GetData--> models --RunModel x M--> data ... done              *)
(*        --Return--> returned                                             *)
(*                                                                         *)
(* for trial i, for benchmark value j: ONE data set is drawn with a fresh  *)
(* key and handed to every model; every model call gets its own fresh key, *)
(* its run name, its own keyword arguments (plus the benchmark value when  *)
(* the benchmark varies the MODEL, and only then); the data generator gets *)
(* the benchmark value when the benchmark varies the DATA, and only then;  *)
(* the returned table has shape (trials, values, models, results) and cell *)
(* (i, j, k, q) holds result q of model k on the data of (i, j).           *)
(*                                                                         *)
(* Keys: `rand_key, subkey = split(rand_key)` before every call.  Key n is *)
(* the subkey of the n-th split of that chain, so "fresh" means: the n-th  *)
(* call (of either kind) receives key n.                                   *)
(*                                                                         *)
(* cfg : [T, btype, bname, range : Seq(Int), names : Seq(STRING),          *)
(*        mkw : Seq(Seq(<<STRING, Int>>)), Q]                              *)
(* Every action is a conjunction of NAMED guards (as in TrainLoop.tla) so  *)
(* that the trace validator can name the clause a recorded event violates. *)
(***************************************************************************)
EXTENDS Integers, Sequences, FiniteSets, TLC

VARIABLES cfg, phase, i, j, k, calls, dataId, dataLog, hist
bvars == <<cfg, phase, i, j, k, calls, dataId, dataLog, hist>>

BAllTrue(gs) == \A n \in 1..Len(gs) : gs[n][2]
BFirstFalse(gs) == IF BAllTrue(gs) THEN "none"
                   ELSE gs[CHOOSE n \in 1..Len(gs) : ~gs[n][2] /\ \A m \in 1..(n - 1) : gs[m][2]][1]
SeqRange(s) == {s[n] : n \in 1..Len(s)}

(* BENCHMARK_NONE: one pseudo value 0 and an empty benchmark name *)
ERange(c) == IF c.btype = "none" THEN <<0>> ELSE c.range
EName(c)  == IF c.btype = "none" THEN "" ELSE c.bname
M(c)      == Len(c.names)
R(c)      == Len(ERange(c))
Cells(c)  == c.T * R(c)
Val(c, jj) == ERange(c)[jj + 1]

StartPhase(c) == IF Cells(c) = 0 THEN "done" ELSE "data"
BInit(c) == /\ cfg = c /\ phase = StartPhase(c) /\ i = 0 /\ j = 0 /\ k = 0 /\ calls = 0
            /\ dataId = -1 /\ dataLog = <<>> /\ hist = <<>>
BReset(c) == /\ cfg' = c /\ phase' = StartPhase(c) /\ i' = 0 /\ j' = 0 /\ k' = 0 /\ calls' = 0
             /\ dataId' = -1 /\ dataLog' = <<>> /\ hist' = <<>>

(* position after the cell (i, j) is finished *)
AdvanceCell == IF j + 1 < R(cfg) THEN /\ j' = j + 1 /\ i' = i /\ phase' = "data"
               ELSE IF i + 1 < cfg.T THEN /\ j' = 0 /\ i' = i + 1 /\ phase' = "data"
               ELSE /\ j' = j /\ i' = i /\ phase' = "done"

(* ---------------- GetData : ev = [key, kw : Seq(<<name, val>>), id] ----------------------------------- *)
ExpDataKw == IF cfg.btype = "data" THEN {<<EName(cfg), Val(cfg, j)>>} ELSE {}
GetDataGuards(ev) == <<
   <<"GetData: data is drawn once per (trial, benchmark value), before the models of that cell", phase = "data">>,
   <<"GetData: receives a fresh key (the next subkey of the chain)", ev.key = calls + 1>>,
   <<"GetData: receives the benchmark value exactly when the benchmark varies the data", SeqRange(ev.kw) = ExpDataKw>>,
   <<"GetData: returns a new data object", \A n \in 1..Len(dataLog) : dataLog[n] # ev.id>> >>
GetData(ev) ==
  /\ BAllTrue(GetDataGuards(ev))
  /\ calls' = calls + 1 /\ dataId' = ev.id /\ dataLog' = Append(dataLog, ev.id) /\ k' = 0
  /\ IF M(cfg) = 0 THEN AdvanceCell ELSE /\ phase' = "models" /\ UNCHANGED <<i, j>>
  /\ UNCHANGED <<cfg, hist>>

(* ---------------- RunModel : ev = [key, data, mname, runname, kw, res : Seq(Int)] --------------------- *)
Override(base, name, val) == {p \in base : p[1] # name} \cup {<<name, val>>}
ExpModelKw == LET base == SeqRange(cfg.mkw[k + 1])
              IN IF cfg.btype = "model" THEN Override(base, EName(cfg), Val(cfg, j)) ELSE base
ExpRunName == cfg.names[k + 1] \o "_" \o EName(cfg) \o ToString(Val(cfg, j)) \o "_t" \o ToString(i)
RunModelGuards(ev) == <<
   <<"RunModel: models run after the cell's data has been drawn", phase = "models">>,
   <<"RunModel: models run in the order given", k < M(cfg) /\ ev.mname = cfg.names[k + 1]>>,
   <<"RunModel: every model of a cell sees the data drawn for that cell", ev.data = dataId>>,
   <<"RunModel: receives a fresh key (the next subkey of the chain)", ev.key = calls + 1>>,
   <<"RunModel: run name is <model>_<benchmark><value>_t<trial>", k < M(cfg) => ev.runname = ExpRunName>>,
   <<"RunModel: keyword arguments are the model's own, plus the benchmark value exactly when the benchmark varies the model",
        k < M(cfg) => SeqRange(ev.kw) = ExpModelKw>>,
   <<"RunModel: the model returns num_results scores", Len(ev.res) = cfg.Q>> >>
RunModel(ev) ==
  /\ BAllTrue(RunModelGuards(ev))
  /\ calls' = calls + 1
  /\ hist' = Append(hist, [i |-> i, j |-> j, k |-> k, data |-> ev.data, res |-> ev.res])
  /\ IF k + 1 < M(cfg) THEN /\ k' = k + 1 /\ UNCHANGED <<i, j, phase>>
     ELSE /\ k' = 0 /\ AdvanceCell
  /\ UNCHANGED <<cfg, dataId, dataLog>>

(* ---------------- Return : ev = [shape, vals (flat, row-major), kwIntact] ------------------------------ *)
CallOf(ii, jj, kk) == (ii * R(cfg) + jj) * M(cfg) + kk + 1            \* position in hist of the call of cell (ii, jj, kk)
CellOK(ev, ii, jj, kk, q) ==
  LET n == ((ii * R(cfg) + jj) * M(cfg) + kk) * cfg.Q + q + 1
  IN n <= Len(ev.vals) /\ CallOf(ii, jj, kk) <= Len(hist) /\ ev.vals[n] = hist[CallOf(ii, jj, kk)].res[q + 1]
ReturnGuards(ev) == <<
   <<"Return: only after every (trial, value, model) has run", phase = "done">>,
   <<"Return: table shape is (trials, benchmark values, models, results)", ev.shape = <<cfg.T, R(cfg), M(cfg), cfg.Q>>>>,
   <<"Return: cell (i, j, k, q) holds result q of model k on the data of (trial i, value j)",
        phase = "done" => \A ii \in 0..(cfg.T - 1), jj \in 0..(R(cfg) - 1), kk \in 0..(M(cfg) - 1), q \in 0..(cfg.Q - 1) : CellOK(ev, ii, jj, kk, q)>>,
   <<"Return: the caller's model keyword dictionaries are not modified", ev.kwIntact>> >>
Return(ev) ==
  /\ BAllTrue(ReturnGuards(ev))
  /\ phase' = "returned"
  /\ UNCHANGED <<cfg, i, j, k, calls, dataId, dataLog, hist>>

(* ---------------- design invariants ----------------------------------------------------------------- *)
Injective(s) == \A a, b \in 1..Len(s) : a # b => s[a] # s[b]
BenchInv ==
  /\ calls = Len(dataLog) + Len(hist)                                    \* one fresh key per call, never reused
  /\ Injective(dataLog)
  /\ \A n \in 1..Len(hist) :                                             \* calls happen in lexicographic (i, j, k) order
        /\ CallOf(hist[n].i, hist[n].j, hist[n].k) = n
        /\ hist[n].data = dataLog[hist[n].i * R(cfg) + hist[n].j + 1]    \* the cell's own data, shared by its models
  /\ phase \in {"done", "returned"} => /\ Len(hist) = Cells(cfg) * M(cfg)
                                       /\ Len(dataLog) = Cells(cfg)
  /\ phase = "models" => Len(dataLog) = i * R(cfg) + j + 1
=============================================================================
