---------------------------- MODULE StoppingInd ----------------------------
(***************************************************************************)
(* Unbounded safety of the patience rule (C19, thorough tier), discharged  *)
(* by Apalache as an inductive invariant: the history variable of          *)
(* Stopping.tla is dropped (it only serves the declarative comparison),    *)
(* losses range over ALL integers and epochs are unbounded.                *)
(*   Init => IndInv                  (apalache-mc --length=0)              *)
(*   IndInv /\ Next => IndInv'       (apalache-mc --init=IndInit --length=1)*)
(* IndInv says: the counter is the distance to the best epoch, never       *)
(* exceeds patience + 1, and the condition has stopped exactly when it     *)
(* equals patience + 1 -- so on a non-improving history training stops     *)
(* after exactly patience + 1 further epochs and never earlier.            *)
(***************************************************************************)
EXTENDS Integers

CONSTANTS
  \* @type: Int;
  Patience,
  \* @type: Int;
  MinDelta

VARIABLES
  \* @type: Int;
  epoch,
  \* @type: Int;
  best,
  \* @type: Int;
  bestEpoch,
  \* @type: Int;
  since,
  \* @type: Bool;
  stopped

INF == 1000000

ConstInit == Patience \in 0..5 /\ MinDelta \in 0..3

Init == epoch = 0 /\ best = INF /\ bestEpoch = 0 /\ since = 0 /\ stopped = FALSE

Observe(l) ==
  /\ ~stopped
  /\ epoch' = epoch + 1
  /\ IF l < best - MinDelta
     THEN best' = l /\ bestEpoch' = epoch + 1 /\ since' = 0
     ELSE UNCHANGED <<best, bestEpoch>> /\ since' = since + 1
  /\ stopped' = (since' > Patience)

Next == \E l \in Int : Observe(l)

IndInv ==
  /\ epoch >= 0 /\ bestEpoch >= 0 /\ bestEpoch <= epoch
  /\ since = epoch - bestEpoch
  /\ since >= 0 /\ since <= Patience + 1
  /\ stopped = (since > Patience)
  /\ (bestEpoch = 0 => best = INF)

IndInit == /\ epoch \in Int /\ best \in Int /\ bestEpoch \in Int /\ since \in Int /\ stopped \in BOOLEAN
           /\ IndInv
=============================================================================
