----------------------------- MODULE Convolution -----------------------------
(***************************************************************************)
(* Vocabulary: the tensor convolution of geometric images, every padding   *)
(* mode, stride, filter dilation (rdil) and image dilation (ldil).         *)
(*                                                                         *)
(* A configuration is a record                                             *)
(*   [N, M, torus, mode, pad, stride, rdil, ldil]     (per-axis sequences) *)
(*   mode \in {"TORUS","SAME","VALID","EXPL"}; pad[j] = <<lo,hi>> is used   *)
(*   for "EXPL" only (ginjax's integer padding n is EXPL with lo = hi = n; *)
(*   its default `None` is TORUS if some axis is toroidal, else SAME).     *)
(*                                                                         *)
(* The single definition everything else follows from is Src(c,i,a): the   *)
(* source pixel of output pixel i under filter tap a, or ZERO.  The image  *)
(* is first wrap-extended on toroidal axes (TORUS mode), THEN zero-        *)
(* interleaved (ldil), THEN zero-padded -- the order ginjax uses and warns *)
(* about; stated here so that nobody mistakes it for an independent        *)
(* requirement.                                                            *)
(***************************************************************************)
EXTENDS GeomImage

ZERO == <<-1>>                                   \* "no source: contributes 0"
DimC(c) == Len(c.N)
AxesC(c) == 1..Len(c.N)

Half(c, j) == ((c.M[j] - 1) \div 2) * c.rdil[j]
Wrap(c, j) == IF c.mode = "TORUS" /\ c.torus[j] THEN Half(c, j) ELSE 0
Lo(c, j)   == CASE c.mode = "TORUS" -> (IF c.torus[j] THEN 0 ELSE Half(c, j))
                [] c.mode = "SAME"  -> Half(c, j)
                [] c.mode = "VALID" -> 0
                [] c.mode = "EXPL"  -> c.pad[j][1]
Hi(c, j)   == CASE c.mode = "TORUS" -> (IF c.torus[j] THEN 0 ELSE Half(c, j))
                [] c.mode = "SAME"  -> Half(c, j)
                [] c.mode = "VALID" -> 0
                [] c.mode = "EXPL"  -> c.pad[j][2]
LenI(c, j) == (c.N[j] + 2 * Wrap(c, j) - 1) * c.ldil[j] + 1          \* wrapped, then interleaved
KLen(c, j) == (c.M[j] - 1) * c.rdil[j] + 1                            \* dilated filter extent
Padded(c, j) == LenI(c, j) + Lo(c, j) + Hi(c, j)
Out(c)     == [j \in AxesC(c) |-> (Padded(c, j) - KLen(c, j)) \div c.stride[j] + 1]

(* what ginjax accepts: even-sided filters need literal padding; at least one output pixel *)
Admissible(c) ==
  /\ (c.mode \in {"TORUS", "SAME"} => \A j \in AxesC(c) : c.M[j] % 2 = 1)
  /\ \A j \in AxesC(c) : Padded(c, j) >= KLen(c, j)

Src(c, i, a) ==
  LET pos == [j \in AxesC(c) |-> i[j] * c.stride[j] + a[j] * c.rdil[j] - Lo(c, j)] IN
  IF \E j \in AxesC(c) : pos[j] < 0 \/ pos[j] >= LenI(c, j) \/ pos[j] % c.ldil[j] # 0 THEN ZERO
  ELSE [j \in AxesC(c) |-> ((pos[j] \div c.ldil[j]) - Wrap(c, j) + 16 * c.N[j]) % c.N[j]]

LinPix(x, dims) == Lin(x, Strides(dims))
PixSeq(dims) == [n \in 1..ProdSeq(dims) |-> Unlin(n - 1, dims, Strides(dims))]   \* row-major enumeration
(* the tap table: flat over (output pixel, tap), entry = linear source index (0-based) or -1 *)
TapTable(c) ==
  LET o == Out(c)  op == PixSeq(o)  mp == PixSeq(c.M)  nt == ProdSeq(c.M) IN
  [n \in 1..(ProdSeq(o) * nt) |->
     LET s == Src(c, op[(n - 1) \div nt + 1], mp[((n - 1) % nt) + 1])
     IN IF s = ZERO THEN -1 ELSE LinPix(s, c.N)]

(* ---------------- symmetry: transport of a configuration by a group element ---------------- *)
Symmetric(c) == c.mode = "EXPL" => \A j \in AxesC(c) : c.pad[j][1] = c.pad[j][2]
UnitStride(c) == \A j \in AxesC(c) : c.stride[j] = 1
PadG(g, pad) == [i \in 1..Dim(g) |-> IF g.s[i] = 1 THEN pad[g.p[i]]                \* a reflected axis swaps lo and hi
                                       ELSE <<pad[g.p[i]][2], pad[g.p[i]][1]>>]
CfgG(g, c) == [N |-> OutDims(g, c.N), M |-> OutDims(g, c.M), torus |-> OutDims(g, c.torus),
               mode |-> c.mode, pad |-> PadG(g, c.pad), stride |-> OutDims(g, c.stride),
               rdil |-> OutDims(g, c.rdil), ldil |-> OutDims(g, c.ldil)]
MoveSrc(g, dims, s) == IF s = ZERO THEN ZERO ELSE MovePix(g, dims, s)

(* C01, index level: the tap table is covariant (ZERO |-> ZERO) *)
Covariant(g, c) ==
  LET cg == CfgG(g, c)  o == Out(c) IN
  /\ Admissible(cg)
  /\ Out(cg) = OutDims(g, o)
  /\ \A i \in Pix(o), a \in Pix(c.M) :
        Src(cg, MovePix(g, o, i), MovePix(g, c.M, a)) = MoveSrc(g, c.N, Src(c, i, a))

(* C01, translations: on a toroidal axis without image dilation the table shifts with the image *)
TransAxis(c, j) == c.mode = "TORUS" /\ c.torus[j] /\ c.ldil[j] = 1 /\ c.stride[j] = 1
Translates(c) ==
  \A j \in AxesC(c) : TransAxis(c, j) =>
     /\ Out(c)[j] = c.N[j]
     /\ \A i \in Pix(Out(c)), a \in Pix(c.M) :
          LET i2 == [i EXCEPT ![j] = (i[j] + 1) % c.N[j]]
              s  == Src(c, i, a)
          IN Src(c, i2, a) = IF s = ZERO THEN ZERO ELSE [s EXCEPT ![j] = (s[j] + 1) % c.N[j]]

(* C04, shape: the standard size formula, re-derived independently of LenI/Padded *)
StdOut(c, j) ==
  LET n  == IF c.mode = "TORUS" /\ c.torus[j] THEN c.N[j] + 2 * (((c.M[j] - 1) \div 2) * c.rdil[j]) ELSE c.N[j]
      dl == (n - 1) * c.ldil[j] + 1
      pd == IF c.mode = "EXPL" THEN c.pad[j][1] + c.pad[j][2]
            ELSE IF c.mode = "VALID" \/ (c.mode = "TORUS" /\ c.torus[j]) THEN 0
            ELSE 2 * (((c.M[j] - 1) \div 2) * c.rdil[j])
      kk == c.rdil[j] * (c.M[j] - 1) + 1
  IN (dl + pd - kk) \div c.stride[j] + 1
ShapeOK(c) == /\ \A j \in AxesC(c) : Out(c)[j] = StdOut(c, j) /\ Out(c)[j] >= 1
              /\ \A i \in Pix(Out(c)), a \in Pix(c.M) : LET s == Src(c, i, a) IN s = ZERO \/ s \in Pix(c.N)
              \* "same"-type modes at unit stride and no dilation keep the extent
              /\ \A j \in AxesC(c) : (c.mode \in {"TORUS", "SAME"} /\ c.stride[j] = 1 /\ c.ldil[j] = 1) => Out(c)[j] = c.N[j]

(* ---------------- value level --------------------------------------------------------------- *)
(* A : sequence over batch of sequences over in-channels of images [dims,k,p,val] (dims = c.N)
   F : sequence over out-channels of sequences over in-channels of filters (dims = c.M)
   result: sequence over batch of sequences over out-channels of images with k = kA + kF, p = pA + pF,
   image indices first, filter indices after. *)
ConvOne(c, Arow, Frow) ==          \* one batch entry, one output channel: sum over in-channels and taps
  LET D  == DimC(c)
      o  == Out(c)
      kA == Arow[1].k   kF == Frow[1].k
      ro == Radix(o, kA + kF)   so == Strides(ro)
      sA == Strides(Radix(c.N, kA))   sF == Strides(Radix(c.M, kF))
      mp == PixSeq(c.M)
  IN [dims |-> o, k |-> kA + kF, p |-> (Arow[1].p + Frow[1].p) % 2,
      val |-> Eager([m \in 1..ProdSeq(ro) |->
         LET dg == Unlin(m - 1, ro, so)
             i  == SubSeq(dg, 1, D)
             I  == SubSeq(dg, D + 1, D + kA)
             J  == SubSeq(dg, D + kA + 1, D + kA + kF)
         IN SumSeq([t \in 1..(Len(Arow) * Len(mp)) |->
               LET ci == (t - 1) \div Len(mp) + 1
                   a  == mp[((t - 1) % Len(mp)) + 1]
                   s  == Src(c, i, a)
               IN IF s = ZERO THEN 0
                  ELSE Arow[ci].val[Lin(s \o I, sA) + 1] * Frow[ci].val[Lin(a \o J, sF) + 1]])])]
Convolve(c, A, F) == Eager([b \in 1..Len(A) |-> Eager([co \in 1..Len(F) |-> ConvOne(c, A[b], F[co])])])

(* fused convolve-and-contract: image index r is contracted with filter index r, r = 1..kA *)
ConvContractOne(c, Arow, Frow) ==
  LET full == ConvOne(c, Arow, Frow)
      kA   == Arow[1].k
  IN MultiContract(full, [r \in 1..kA |-> <<r, kA + r>>])
ConvContract(c, A, F) == Eager([b \in 1..Len(A) |-> Eager([co \in 1..Len(F) |-> ConvContractOne(c, A[b], F[co])])])
=============================================================================
