------------------------------ MODULE GeomImage ------------------------------
(***************************************************************************)
(* Vocabulary: the geometric-image algebra on integer-valued images.       *)
(*                                                                         *)
(* An image is a record                                                    *)
(*    [dims |-> <<N_1..N_D>>, k |-> tensor order, p |-> parity (0/1),       *)
(*     val |-> flat row-major sequence of length prod(dims) * D^k]          *)
(* D = Len(dims).  Row-major over (pixel coordinates, tensor indices) is    *)
(* numpy's C order, so `val` <-> `ndarray.ravel()` is the identity.        *)
(* Optional field `torus` (sequence of BOOLEAN) is carried where needed.   *)
(***************************************************************************)
EXTENDS Hyperoctahedral

DimI(A)        == Len(A.dims)
Radix(dims, k) == dims \o [i \in 1..k |-> Len(dims)]
Strides(radix) == [j \in 1..Len(radix) |-> ProdSeq(SubSeq(radix, j + 1, Len(radix)))]
Unlin(n, radix, st) == [j \in 1..Len(radix) |-> (n \div st[j]) % radix[j]]          \* n is 0-based
Lin(ds, st)    == SumSeq([j \in 1..Len(ds) |-> ds[j] * st[j]])
Size(A)        == ProdSeq(Radix(A.dims, A.k))
NPix(A)        == ProdSeq(A.dims)
Pow(b, e)      == ProdSeq([i \in 1..e |-> b])
NComp(A)       == Pow(DimI(A), A.k)

WellFormed(A) == /\ A.k \in Nat /\ A.p \in {0, 1} /\ Len(A.val) = Size(A)
                 /\ (DimI(A) = 1 => A.k = 0)

Token(dims, k, p) == [dims |-> dims, k |-> k, p |-> p,
                      val |-> Eager([m \in 1..ProdSeq(Radix(dims, k)) |-> m])]

(* ---- the group action: (g.A)(y)_J = det(g)^p * prod_a s[J_a] * A(g^-1 y)_{p[J]} ---- *)
Act(g, A) ==
  LET D    == DimI(A)
      od   == OutDims(g, A.dims)
      gi   == Inv(g)
      rin  == Radix(A.dims, A.k)
      rout == Radix(od, A.k)
      sin  == Strides(rin)
      sout == Strides(rout)
      dp   == IF A.p = 1 THEN Det(g) ELSE 1
  IN [A EXCEPT !.dims = od,
        !.val = Eager([m \in 1..ProdSeq(rout) |->
           LET dg  == Unlin(m - 1, rout, sout)
               x   == MovePix(gi, od, SubSeq(dg, 1, D))
               J   == SubSeq(dg, D + 1, D + A.k)
           IN dp * SignIdx(g, J) * A.val[Lin(x \o SrcIdx(g, J), sin) + 1]])]

(* per-axis flags travel with their axes *)
ActFlags(g, flags) == OutDims(g, flags)

(* ---- linear structure ---- *)
SameType(A, C) == A.dims = C.dims /\ A.k = C.k /\ A.p = C.p
Add(A, C)   == [A EXCEPT !.val = Eager([m \in 1..Len(A.val) |-> A.val[m] + C.val[m]])]
Sub(A, C)   == [A EXCEPT !.val = Eager([m \in 1..Len(A.val) |-> A.val[m] - C.val[m]])]
Scale(c, A) == [A EXCEPT !.val = Eager([m \in 1..Len(A.val) |-> c * A.val[m]])]

(* ---- pixel-wise tensor product: indices of A first, then those of C; parity adds mod 2 ---- *)
TProd(A, C) ==
  LET D  == DimI(A)
      ro == Radix(A.dims, A.k + C.k)
      so == Strides(ro)
      sa == Strides(Radix(A.dims, A.k))
      sc == Strides(Radix(C.dims, C.k))
  IN [dims |-> A.dims, k |-> A.k + C.k, p |-> (A.p + C.p) % 2,
      val |-> Eager([m \in 1..ProdSeq(ro) |->
         LET dg == Unlin(m - 1, ro, so)
             x  == SubSeq(dg, 1, D)
         IN A.val[Lin(x \o SubSeq(dg, D + 1, D + A.k), sa) + 1]
            * C.val[Lin(x \o SubSeq(dg, D + A.k + 1, D + A.k + C.k), sc) + 1]])]

(* ---- transposition of tensor indices: result index a is the old index perm[a] (1-based),
        i.e. numpy.transpose(data, spatial ++ perm) ---- *)
Transpose(A, perm) ==
  LET D  == DimI(A)
      r  == Radix(A.dims, A.k)
      s  == Strides(r)
  IN [A EXCEPT !.val = Eager([m \in 1..Len(A.val) |->
         LET dg == Unlin(m - 1, r, s)
             src == [j \in 1..(D + A.k) |-> IF j <= D THEN dg[j]
                       ELSE dg[D + (CHOOSE a \in 1..A.k : perm[a] = j - D)]]
         IN A.val[Lin(src, s) + 1]])]

(* ---- Kronecker contraction of tensor indices i < j (1-based positions) ---- *)
Contract(A, i, j) ==
  LET D  == DimI(A)
      lo == IF i < j THEN i ELSE j
      hi == IF i < j THEN j ELSE i
      ro == Radix(A.dims, A.k - 2)
      so == Strides(ro)
      sa == Strides(Radix(A.dims, A.k))
      \* insert value t at tensor positions lo and hi of the reduced index list
      Ins(J, t) == [a \in 1..A.k |-> IF a = lo \/ a = hi THEN t
                                     ELSE IF a < lo THEN J[a] ELSE IF a < hi THEN J[a - 1] ELSE J[a - 2]]
  IN [dims |-> A.dims, k |-> A.k - 2, p |-> A.p,
      val |-> Eager([m \in 1..ProdSeq(ro) |->
         LET dg == Unlin(m - 1, ro, so)
             x  == SubSeq(dg, 1, D)
             J  == SubSeq(dg, D + 1, D + A.k - 2)
         IN SumSeq([t \in 1..D |-> A.val[Lin(x \o Ins(J, t - 1), sa) + 1]])])]

(* multiple contraction: pairs is a sequence of <<i, j>> over the ORIGINAL index positions.
   Defined by contracting the pair with the largest indices first so that positions stay valid. *)
RECURSIVE MultiContract(_, _)
MultiContract(A, pairs) ==
  IF pairs = <<>> THEN A
  ELSE LET Mx(q) == IF q[1] > q[2] THEN q[1] ELSE q[2]
           Mn(q) == IF q[1] > q[2] THEN q[2] ELSE q[1]
           best  == CHOOSE a \in 1..Len(pairs) : \A b \in 1..Len(pairs) : Mx(pairs[b]) <= Mx(pairs[a])
           q     == pairs[best]
           rest  == [a \in 1..(Len(pairs) - 1) |-> IF a < best THEN pairs[a] ELSE pairs[a + 1]]
           \* removing positions Mn(q) < Mx(q): every remaining index is < Mx(q); shift those > Mn(q)
           Sh(t) == IF t > Mn(q) THEN t - 1 ELSE t
       IN MultiContract(Contract(A, Mn(q), Mx(q)),
                        [a \in 1..Len(rest) |-> <<Sh(rest[a][1]), Sh(rest[a][2])>>])

(* ---- Levi-Civita symbol and contraction ---- *)
Eps(I) == IF \E a, b \in 1..Len(I) : a < b /\ I[a] = I[b] THEN 0
          ELSE IF Inversions(I) % 2 = 0 THEN 1 ELSE -1
(* contract tensor positions idxs (sequence of D-1 distinct 1-based positions) with the first D-1
   indices of epsilon; the free epsilon index is appended last.  k' = k - (D-1) + 1, parity + 1 *)
LeviCivita(A, idxs) ==
  LET D    == DimI(A)
      kept == [a \in 1..(A.k - (D - 1)) |->
                 CHOOSE t \in 1..A.k : /\ \A b \in 1..Len(idxs) : idxs[b] # t
                                      /\ Cardinality({u \in 1..(t - 1) : \A b \in 1..Len(idxs) : idxs[b] # u}) = a - 1]
      ko   == A.k - (D - 1) + 1
      ro   == Radix(A.dims, ko)
      so   == Strides(ro)
      sa   == Strides(Radix(A.dims, A.k))
      AllI == [1..(D - 1) -> 0..(D - 1)]
  IN [dims |-> A.dims, k |-> ko, p |-> (A.p + 1) % 2,
      val |-> Eager([m \in 1..ProdSeq(ro) |->
         LET dg == Unlin(m - 1, ro, so)
             x  == SubSeq(dg, 1, D)
             J  == SubSeq(dg, D + 1, D + ko)          \* kept indices then the free epsilon index
             Full(I) == [t \in 1..A.k |->
                           IF \E b \in 1..(D - 1) : idxs[b] = t
                           THEN I[CHOOSE b \in 1..(D - 1) : idxs[b] = t]
                           ELSE J[CHOOSE a \in 1..Len(kept) : kept[a] = t]]
             Term(I) == Eps(I \o <<J[ko]>>) * A.val[Lin(x \o Full(I), sa) + 1]
             RECURSIVE SumSet(_)
             SumSet(S) == IF S = {} THEN 0 ELSE LET e == CHOOSE e \in S : TRUE IN Term(e) + SumSet(S \ {e})
         IN SumSet(AllI)])]

(* ---- squared Frobenius norm per pixel: a true scalar image ---- *)
NormSq(A) ==
  LET D  == DimI(A)
      nc == NComp(A)
  IN [dims |-> A.dims, k |-> 0, p |-> 0,
      val |-> Eager([m \in 1..NPix(A) |-> SumSeq([c \in 1..nc |-> A.val[(m - 1) * nc + c] * A.val[(m - 1) * nc + c]])])]

(* ---- spatial sum, broadcast back over the pixels: the numerator of the spatial mean (a spatially constant field of the ---- *)
(* ---- same type; the typing rule "smean" of EquivCalculus.tla, and with TProd / Contract its rules "cov" and "matvec") ---- *)
SpatialSumField(A) ==
  LET nc == NComp(A)
      np == NPix(A)
      tot == Eager([c \in 1..nc |-> SumSeq([m \in 1..np |-> A.val[(m - 1) * nc + c]])])
  IN [A EXCEPT !.val = Eager([n \in 1..Len(A.val) |-> tot[((n - 1) % nc) + 1]])]

(* ---- cyclic translation by t (per-axis offsets): (Shift(A,t))(x) = A(x - t) ---- *)
Shift(A, t) ==
  LET D == DimI(A)
      r == Radix(A.dims, A.k)
      s == Strides(r)
  IN [A EXCEPT !.val = Eager([m \in 1..Len(A.val) |->
         LET dg == Unlin(m - 1, r, s)
             src == [j \in 1..(D + A.k) |-> IF j <= D THEN (dg[j] - t[j] + 8 * A.dims[j]) % A.dims[j] ELSE dg[j]]
         IN A.val[Lin(src, s) + 1]])]
=============================================================================
