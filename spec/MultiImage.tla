----------------------------- MODULE MultiImage -----------------------------
(***************************************************************************)
(* Vocabulary: the multi-image -- a collection of blocks of geometric      *)
(* images keyed by tensor type (k, parity), each block with the same       *)
(* number of leading (batch / channel / time) axes.                        *)
(*                                                                         *)
(*   MI    == [d, dims, torus, order : Seq(Type), blks : Seq(Block)]       *)
(*   Type  == <<k, p>>                                                     *)
(*   Block == [lead : Seq(Nat), val : flat row-major Seq(Int)]             *)
(*            full shape = lead \o dims \o <<d,..,d>> (k times)            *)
(*                                                                         *)
(* `order` is the STORAGE order (the Python dict's insertion order).  The  *)
(* properties say it must never influence a result block, so it is         *)
(* modelled explicitly and every operator below is defined BY TYPE.        *)
(***************************************************************************)
EXTENDS GeomImage

Range(s)      == {s[i] : i \in 1..Len(s)}
TypeSet(m)    == Range(m.order)
Has(m, t)     == \E i \in 1..Len(m.order) : m.order[i] = t
Idx(m, t)     == CHOOSE i \in 1..Len(m.order) : m.order[i] = t
Blk(m, t)     == m.blks[Idx(m, t)]
Inner(m, t)   == ProdSeq(m.dims) * Pow(m.d, t[1])                \* entries of one image of type t
NLead(m)      == IF m.order = <<>> THEN 0 ELSE Len(m.blks[1].lead)
EmptyLike(m)  == [m EXCEPT !.order = <<>>, !.blks = <<>>]
Signature(m)  == [i \in 1..Len(m.order) |-> <<m.order[i], m.blks[i].lead[Len(m.blks[i].lead)]>>]   \* <<type, channels>>
FullShape(m, i) == m.blks[i].lead \o m.dims \o [a \in 1..m.order[i][1] |-> m.d]

TypeLess(t, u) == t[1] < u[1] \/ (t[1] = u[1] /\ t[2] < u[2])
RECURSIVE SortTypes(_)
SortTypes(S)  == IF S = {} THEN <<>>
                 ELSE LET mn == CHOOSE t \in S : \A u \in S : u = t \/ TypeLess(t, u)
                      IN <<mn>> \o SortTypes(S \ {mn})
PixSeq2(dims) == [n \in 1..ProdSeq(dims) |-> Unlin(n - 1, dims, Strides(dims))]
RECURSIVE FlatCat(_)
FlatCat(ss)   == IF ss = <<>> THEN <<>> ELSE Head(ss) \o FlatCat(Tail(ss))

(* ---- concatenation of two blocks along leading axis `ax` (1-based); inner = entries per leading entry ---- *)
ConcatLead(b1, b2, ax, inner) ==
  LET l1 == b1.lead[ax]
      lo == [b1.lead EXCEPT ![ax] = b1.lead[ax] + b2.lead[ax]]
      so == Strides(lo)  s1 == Strides(b1.lead)  s2 == Strides(b2.lead)
  IN [lead |-> lo,
      val |-> Eager([n \in 1..(ProdSeq(lo) * inner) |->
         LET li == Unlin((n - 1) \div inner, lo, so)
             r  == (n - 1) % inner
         IN IF li[ax] < l1 THEN b1.val[Lin(li, s1) * inner + r + 1]
            ELSE b2.val[Lin([li EXCEPT ![ax] = li[ax] - l1], s2) * inner + r + 1]])]

(* append(k, parity, block, axis): concatenate on an existing type, else insert the type LAST *)
CanAppend(m, t, b, ax) == /\ (m.order = <<>> \/ ax <= NLead(m))
                          /\ (m.d = 1 => t[1] = 0)
                          /\ (Has(m, t) => /\ Len(b.lead) = Len(Blk(m, t).lead)
                                           /\ \A j \in 1..Len(b.lead) : j # ax => b.lead[j] = Blk(m, t).lead[j])
AppendMI(m, t, b, ax) ==
  IF Has(m, t) THEN [m EXCEPT !.blks[Idx(m, t)] = ConcatLead(Blk(m, t), b, ax, Inner(m, t))]
  ELSE [m EXCEPT !.order = Append(m.order, t), !.blks = Append(m.blks, b)]

RECURSIVE AppendAll(_, _, _, _)
AppendAll(m, other, i, ax) == IF i > Len(other.order) THEN m
                              ELSE AppendAll(AppendMI(m, other.order[i], other.blks[i], ax), other, i + 1, ax)
CanConcat(a, b) == a.d = b.d /\ a.torus = b.torus
ConcatMI(a, b, ax) == AppendAll(a, b, 1, ax)                     \* out = copy of a, then append b's blocks in b's order

(* what jit / vmap / tree_flatten do: the dict comes back with SORTED keys; blocks, d, torus preserved by type *)
PytreeMI(m) == LET so == SortTypes(TypeSet(m)) IN [m EXCEPT !.order = so, !.blks = Eager([i \in 1..Len(so) |-> Blk(m, so[i])])]

(* ---- arithmetic, by type ---- *)
CanCombine(a, b) == a.d = b.d /\ a.torus = b.torus /\ TypeSet(a) = TypeSet(b)
ZipMI(a, b, Op(_, _)) == [a EXCEPT !.blks = Eager([i \in 1..Len(a.order) |->
                           [lead |-> a.blks[i].lead,
                            val |-> Eager([n \in 1..Len(a.blks[i].val) |-> Op(a.blks[i].val[n], Blk(b, a.order[i]).val[n])])]])]
AddMI(a, b)   == ZipMI(a, b, LAMBDA x, y : x + y)
SubMI(a, b)   == ZipMI(a, b, LAMBDA x, y : x - y)
ScaleMI(m, c) == [m EXCEPT !.blks = Eager([i \in 1..Len(m.order) |-> [m.blks[i] EXCEPT !.val = Eager([n \in 1..Len(m.blks[i].val) |-> c * m.blks[i].val[n]])]])]
EqMI(a, b)    == /\ a.d = b.d /\ a.torus = b.torus /\ TypeSet(a) = TypeSet(b)
                 /\ \A t \in TypeSet(a) : Blk(a, t).val = Blk(b, t).val /\ Blk(a, t).lead = Blk(b, t).lead

(* ---- vectorise / de-vectorise (storage order of the template) ---- *)
ToVector(m) == FlatCat([i \in 1..Len(m.order) |-> m.blks[i].val])
Offsets(m)  == [i \in 1..Len(m.order) |-> SumSeq([j \in 1..(i - 1) |-> Len(m.blks[j].val)])]
FromVector(v, tmpl) == [tmpl EXCEPT !.blks = Eager([i \in 1..Len(tmpl.order) |->
                          [lead |-> tmpl.blks[i].lead,
                           val |-> SubSeq(v, Offsets(tmpl)[i] + 1, Offsets(tmpl)[i] + Len(tmpl.blks[i].val))]])]

(* ---- tensor components <-> scalar channels.  Positional contract: with nb batch axes, the block of type t with
        c channels contributes the scalar channels off(t) + ch * d^k + comp, types in storage order ---- *)
ChanOf(m, i)  == m.blks[i].lead[Len(m.blks[i].lead)]
ScalarChans(m, i) == ChanOf(m, i) * Pow(m.d, m.order[i][1])
ToScalar(m) ==
  LET nl   == NLead(m)
      bsh  == SubSeq(m.blks[1].lead, 1, nl - 1)                         \* batch shape (shared)
      C    == SumSeq([i \in 1..Len(m.order) |-> ScalarChans(m, i)])
      coff == [i \in 1..Len(m.order) |-> SumSeq([j \in 1..(i - 1) |-> ScalarChans(m, j)])]
      np   == ProdSeq(m.dims)
      osh  == bsh \o <<C>> \o m.dims
      os   == Strides(osh)
  IN [m EXCEPT !.order = <<<<0, 0>>>>,
        !.blks = <<[lead |-> bsh \o <<C>>,
                    val |-> Eager([n \in 1..ProdSeq(osh) |->
                       LET dg == Unlin(n - 1, osh, os)
                           bi == SubSeq(dg, 1, nl - 1)
                           sc == dg[nl]                                   \* scalar channel
                           x  == SubSeq(dg, nl + 1, nl + m.d)
                           i  == CHOOSE i \in 1..Len(m.order) : coff[i] <= sc /\ sc < coff[i] + ScalarChans(m, i)
                           nc == Pow(m.d, m.order[i][1])
                           ch == (sc - coff[i]) \div nc
                           cp == (sc - coff[i]) % nc
                           fl == Lin(bi \o <<ch>> \o x, Strides(bsh \o <<ChanOf(m, i)>> \o m.dims)) * nc + cp
                       IN m.blks[i].val[fl + 1]])]>>]

(* layout : Seq(<<type, channels>>) -- the inverse placement, types emitted in layout order *)
FromScalar(m, layout) ==
  LET nl   == NLead(m)
      bsh  == SubSeq(m.blks[1].lead, 1, nl - 1)
      C    == m.blks[1].lead[nl]
      ssh  == bsh \o <<C>> \o m.dims
      ss   == Strides(ssh)
      nch(i) == layout[i][2] * Pow(m.d, layout[i][1][1])
      coff == [i \in 1..Len(layout) |-> SumSeq([j \in 1..(i - 1) |-> nch(j)])]
  IN [m EXCEPT !.order = [i \in 1..Len(layout) |-> layout[i][1]],
        !.blks = Eager([i \in 1..Len(layout) |->
           LET k   == layout[i][1][1]
               nc  == Pow(m.d, k)
               osh == bsh \o <<layout[i][2]>> \o m.dims
               os  == Strides(osh)
           IN [lead |-> bsh \o <<layout[i][2]>>,
               val |-> Eager([n \in 1..(ProdSeq(osh) * nc) |->
                  LET dg == Unlin((n - 1) \div nc, osh, os)
                      cp == (n - 1) % nc
                      sc == coff[i] + dg[nl] * nc + cp
                  IN m.blks[1].val[Lin(SubSeq(dg, 1, nl - 1) \o <<sc>> \o SubSeq(dg, nl + 1, nl + m.d), ss) + 1]])]])]

(* ---- split by signature along a leading axis: b receives the LAST sizes[t] entries, a the rest ---- *)
SliceLead(b, ax, from, to, inner) ==         \* entries from..to-1 (0-based) along axis ax
  LET lo == [b.lead EXCEPT ![ax] = to - from]
      so == Strides(lo)  sb == Strides(b.lead)
  IN [lead |-> lo,
      val |-> Eager([n \in 1..(ProdSeq(lo) * inner) |->
         LET li == Unlin((n - 1) \div inner, lo, so)
         IN b.val[Lin([li EXCEPT ![ax] = li[ax] + from], sb) * inner + ((n - 1) % inner) + 1]])]
SizeIn(sig, t) == IF \E i \in 1..Len(sig) : sig[i][1] = t THEN sig[CHOOSE i \in 1..Len(sig) : sig[i][1] = t][2] ELSE 0
SubSeqWhere(s, P(_)) == LET F[i \in 0..Len(s)] == IF i = 0 THEN <<>> ELSE IF P(i) THEN Append(F[i - 1], s[i]) ELSE F[i - 1] IN F[Len(s)]
ConcatInverse(m, sig, ax) ==
  LET sz(i)  == SizeIn(sig, m.order[i])
      tot(i) == m.blks[i].lead[ax]
      inA(i) == sz(i) < tot(i)
      inB(i) == sz(i) > 0
      ia == SubSeqWhere([i \in 1..Len(m.order) |-> i], inA)
      ib == SubSeqWhere([i \in 1..Len(m.order) |-> i], inB)
  IN <<[m EXCEPT !.order = [j \in 1..Len(ia) |-> m.order[ia[j]]],
          !.blks = Eager([j \in 1..Len(ia) |-> IF sz(ia[j]) = 0 THEN m.blks[ia[j]]
                                         ELSE SliceLead(m.blks[ia[j]], ax, 0, tot(ia[j]) - sz(ia[j]), Inner(m, m.order[ia[j]]))])],
       [m EXCEPT !.order = [j \in 1..Len(ib) |-> m.order[ib[j]]],
          !.blks = Eager([j \in 1..Len(ib) |-> IF sz(ib[j]) = tot(ib[j]) THEN m.blks[ib[j]]
                                         ELSE SliceLead(m.blks[ib[j]], ax, tot(ib[j]) - sz(ib[j]), tot(ib[j]), Inner(m, m.order[ib[j]]))])]>>

(* ---- pure reshapes of the leading axes: values untouched ---- *)
MapLead(m, F(_)) == [m EXCEPT !.blks = Eager([i \in 1..Len(m.order) |-> [m.blks[i] EXCEPT !.lead = F(m.blks[i].lead)]])]
Expand(m, ax, size)   == MapLead(m, LAMBDA l : SubSeq(l, 1, ax - 1) \o <<l[ax] \div size, size>> \o SubSeq(l, ax + 1, Len(l)))
Combine(m, a1, a2)    == MapLead(m, LAMBDA l : SubSeq(l, 1, a1 - 1) \o <<ProdSeq(SubSeq(l, a1, a2))>> \o SubSeq(l, a2 + 1, Len(l)))
ReshapePmap(m, n)     == MapLead(m, LAMBDA l : <<n, l[1] \div n>> \o Tail(l))

(* ---- subset along the first leading axis ---- *)
GetSubset(m, idxs) ==
  [m EXCEPT !.blks = Eager([i \in 1..Len(m.order) |->
     LET b == m.blks[i]  per == Len(b.val) \div b.lead[1]
     IN [lead |-> [b.lead EXCEPT ![1] = Len(idxs)],
         val |-> Eager([n \in 1..(Len(idxs) * per) |-> b.val[idxs[(n - 1) \div per + 1] * per + ((n - 1) % per) + 1]])]])]

(* ---- to / from single images ---- *)
ToImages(m) == FlatCat([i \in 1..Len(m.order) |->
                 LET t == m.order[i]  inner == Inner(m, t)  cnt == ProdSeq(m.blks[i].lead) IN
                 [j \in 1..cnt |-> [dims |-> m.dims, k |-> t[1], p |-> t[2],
                                    val |-> SubSeq(m.blks[i].val, (j - 1) * inner + 1, j * inner)]]])
RECURSIVE FromImagesRec(_, _, _)
FromImagesRec(m, imgs, nl) == IF imgs = <<>> THEN m
   ELSE FromImagesRec(AppendMI(m, <<Head(imgs).k, Head(imgs).p>>, [lead |-> [a \in 1..nl |-> 1], val |-> Head(imgs).val], 1),
                      Tail(imgs), nl)
FromImages(imgs, d, torus, nl) == FromImagesRec([d |-> d, dims |-> Head(imgs).dims, torus |-> torus, order |-> <<>>, blks |-> <<>>], imgs, nl)

(* ---- per-image operations lifted to every leading entry (C14: no cross-talk) ---- *)
ImageAt(m, i, j) == LET t == m.order[i]  inner == Inner(m, t) IN
                    [dims |-> m.dims, k |-> t[1], p |-> t[2], val |-> SubSeq(m.blks[i].val, (j - 1) * inner + 1, j * inner)]
LiftBlock(m, i, F(_)) == FlatCat([j \in 1..ProdSeq(m.blks[i].lead) |-> F(ImageAt(m, i, j)).val])
ActMI(g, m) == [m EXCEPT !.dims = OutDims(g, m.dims), !.torus = OutDims(g, m.torus),
                         !.blks = Eager([i \in 1..Len(m.order) |-> [m.blks[i] EXCEPT !.val = LiftBlock(m, i, LAMBDA A : Act(g, A))]])]
(* squared pixel norms of every type become scalar channels, concatenated on the channel (last leading) axis in storage order *)
RECURSIVE CatBlocks(_, _, _)
CatBlocks(bs, ax, inner) == IF Len(bs) = 1 THEN bs[1] ELSE CatBlocks(<<ConcatLead(bs[1], bs[2], ax, inner)>> \o SubSeq(bs, 3, Len(bs)), ax, inner)
NormSqMI(m) == [m EXCEPT !.order = <<<<0, 0>>>>,
                 !.blks = <<CatBlocks([i \in 1..Len(m.order) |-> [lead |-> m.blks[i].lead, val |-> LiftBlock(m, i, LAMBDA A : NormSq(A))]],
                                      NLead(m), ProdSeq(m.dims))>>]

(* numerator of average pooling with patch length q (denominator q^d): non-overlapping q^d patches *)
AvgPoolNum(A, q) ==
  LET D  == DimI(A)
      od == [j \in 1..D |-> A.dims[j] \div q]
      nc == NComp(A)
      ro == Radix(od, A.k)  so == Strides(ro)  sa == Strides(Radix(A.dims, A.k))
      offs == PixSeq2([j \in 1..D |-> q])
  IN [A EXCEPT !.dims = od,
        !.val = Eager([n \in 1..ProdSeq(ro) |->
           LET dg == Unlin(n - 1, ro, so) IN
           SumSeq([r \in 1..Len(offs) |->
              A.val[Lin([j \in 1..(D + A.k) |-> IF j <= D THEN dg[j] * q + offs[r][j] ELSE dg[j]], sa) + 1]])])]
AvgPoolNumMI(m, q) == [m EXCEPT !.dims = [j \in 1..Len(m.dims) |-> m.dims[j] \div q],
                         !.blks = Eager([i \in 1..Len(m.order) |-> [m.blks[i] EXCEPT !.val = LiftBlock(m, i, LAMBDA A : AvgPoolNum(A, q))]])]

(* get_component(c0 .. c0+n-1, T): blocks (c*T, spatial, tensor), one leading axis.  The fields of all types are laid side by side
   as scalar components (type in storage order, then channel, then tensor component); the result is the single scalar block
   (n*T, spatial): selected component major, time minor.  An integer component is the case n = 1. *)
CompCount(m, i, T) == (m.blks[i].lead[Len(m.blks[i].lead)] \div T) * Pow(m.d, m.order[i][1])
CompTotal(m, T) == SumSeq([i \in 1..Len(m.order) |-> CompCount(m, i, T)])
(* value of global component `comp` at time t, pixel x, of the sub-multi-image whose blocks start at flat offset base(i) *)
CompVal(m, comp, t, x, T, base(_)) ==
  LET coff == [i \in 1..Len(m.order) |-> SumSeq([j \in 1..(i - 1) |-> CompCount(m, j, T)])]
      i  == CHOOSE i \in 1..Len(m.order) : coff[i] <= comp /\ comp < coff[i] + CompCount(m, i, T)
      nc == Pow(m.d, m.order[i][1])
      ch == (comp - coff[i]) \div nc
      cp == (comp - coff[i]) % nc
      np == ProdSeq(m.dims)
  IN m.blks[i].val[base(i) + ((ch * T + t) * np + x) * nc + cp + 1]
GetComponents(m, c0, n, T) ==
  LET np == ProdSeq(m.dims) IN
  [m EXCEPT !.order = <<<<0, 0>>>>,
        !.blks = <<[lead |-> <<n * T>>,
                    val |-> Eager([q \in 1..(n * T * np) |->
                       LET j == (q - 1) \div (T * np)  t == ((q - 1) \div np) % T  x == (q - 1) % np
                       IN CompVal(m, c0 + j, t, x, T, LAMBDA i : 0)])]>>]
GetComponent(m, comp, T) == GetComponents(m, comp, 1, T)
(* batch_get_component: blocks (B, c*T, spatial, tensor); every batch entry is treated as its own multi-image *)
BatchGetComponents(m, c0, n, T) ==
  LET np == ProdSeq(m.dims)  NB == m.blks[1].lead[1]
      per(i) == Len(m.blks[i].val) \div NB
  IN [m EXCEPT !.order = <<<<0, 0>>>>,
        !.blks = <<[lead |-> <<NB, n * T>>,
                    val |-> Eager([q \in 1..(NB * n * T * np) |->
                       LET b == (q - 1) \div (n * T * np)  r == (q - 1) % (n * T * np)
                           j == r \div (T * np)  t == (r \div np) % T  x == r % np
                       IN CompVal(m, c0 + j, t, x, T, LAMBDA i : b * per(i))])]>>]
=============================================================================
