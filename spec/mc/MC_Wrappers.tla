----------------------------- MODULE MC_Wrappers -----------------------------
(***************************************************************************)
(* C10.  init --Pick--> case.                                              *)
(*  "avg"     (operator list, inner model id, input): Closed(G) =>         *)
(*            AvgCommutes; non-closed lists are negative controls whose    *)
(*            outcome is only reported.                                    *)
(*  "climate" (signature order, extents, steps, constants, inner model id):*)
(*            ClimateLaws, ClimateCommutes.                                *)
(***************************************************************************)
EXTENDS Wrappers, TLC, Json

CONSTANTS D, GroupNames, AvgSigs, AvgDims, ModelIds, ClimSigs, ClimDims, ClimTs, ClimConsts

VARIABLE st

GroupOf(name) ==
  CASE name = "B" -> B(D) [] name = "ROT" -> Rotations(D) [] name = "FLIP" -> Flips(D) [] name = "TRIV" -> Trivial(D)
    [] name = "C4" -> Closure({[p |-> <<2, 1>>, s |-> <<-1, 1>>]})
    [] name = "C3" -> Closure({[p |-> <<2, 3, 1>>, s |-> <<1, 1, 1>>]})
    [] name = "FLIPX" -> Closure({[p |-> [i \in 1..D |-> i], s |-> [i \in 1..D |-> IF i = 1 THEN -1 ELSE 1]]})
    [] name = "OPEN2" -> {Id(D), [p |-> <<2, 1>>, s |-> <<-1, 1>>]}                                   \* not closed (d = 2)
    [] name = "OPEN3" -> {[p |-> <<2, 1>>, s |-> <<-1, 1>>], [p |-> <<1, 2>>, s |-> <<-1, 1>>]}       \* generators only (d = 2)

MkMI(d, dims, torus, sig, seed) ==
  [d |-> d, dims |-> dims, torus |-> torus, order |-> [i \in 1..Len(sig) |-> sig[i][1]],
   blks |-> [i \in 1..Len(sig) |->
      LET n == sig[i][2] * ProdSeq(dims) * Pow(d, sig[i][1][1])
      IN [lead |-> <<sig[i][2]>>, val |-> [m \in 1..n |-> (((seed + i) * 131 + m * 7919) % 5) - 2]]]]

Init == st = [kind |-> "init"]
(* two-level fan-out so that TLC's workers share the cases *)
PreAvg == st.kind = "init" /\ \E g \in GroupNames, sg \in AvgSigs : st' = [kind |-> "preavg", group |-> g, sig |-> sg]
PickAvg == st.kind = "preavg" /\ \E dm \in AvgDims, mid \in ModelIds :
             st' = [kind |-> "avg", group |-> st.group, sig |-> st.sig, dims |-> dm, mid |-> mid]
PreClim == st.kind = "init" /\ D = 2 /\ \E sg \in ClimSigs, dm \in ClimDims : st' = [kind |-> "preclim", sig |-> sg, dims |-> dm]
PickClim == st.kind = "preclim" /\ \E T \in ClimTs, cs \in ClimConsts, mid \in ModelIds :
             /\ \A i \in 1..Len(cs) : \E j \in 1..Len(st.sig) : st.sig[j][1] = cs[i][1]      \* constants ride on a type that is present
             /\ st' = [kind |-> "clim", sig |-> st.sig, dims |-> st.dims, T |-> T, consts |-> cs, mid |-> mid]
Next == PreAvg \/ PickAvg \/ PreClim \/ PickClim

AvgX == MkMI(D, st.dims, [i \in 1..D |-> TRUE], st.sig, st.mid)
ClimSigFull == [i \in 1..Len(st.sig) |-> <<st.sig[i][1], st.sig[i][2] * st.T + NConstOf(st.consts, st.sig[i][1])>>]
ClimX == MkMI(2, st.dims, <<TRUE, FALSE>>, ClimSigFull, st.mid + st.T)
ClimXdyn == MkMI(2, st.dims, <<TRUE, FALSE>>, [i \in 1..Len(st.sig) |-> <<st.sig[i][1], st.sig[i][2] * st.T>>], st.mid + st.T)

Laws ==
  /\ (st.kind = "avg" => (Closed(GroupOf(st.group)) => AvgCommutes(GroupOf(st.group), st.mid, AvgX)))
  /\ (st.kind = "clim" => /\ ClimateLaws(ClimXdyn, st.T)
                          /\ (CanonOrder(ClimXdyn) => ClimateCommutes(st.mid, ClimXdyn, st.T))
                          /\ ((CanonOrder(ClimX) /\ st.consts # <<>>) => ClimateCommutesC(st.mid, ClimX, st.T, st.consts)))

Snap(m) == [d |-> m.d, dims |-> m.dims, torus |-> m.torus, order |-> m.order,
            leads |-> [i \in 1..Len(m.order) |-> m.blks[i].lead], vals |-> [i \in 1..Len(m.order) |-> m.blks[i].val]]
Emit ==
  /\ (st.kind = "avg" =>
        LET G == GroupOf(st.group) IN
        PrintT(<<"CASE", ToJson([kind |-> "avg", group |-> st.group, closed |-> Closed(G), commutes |-> AvgCommutes(G, st.mid, AvgX),
                                 ops |-> [j \in 1..Cardinality(G) |-> Mat(SetToSeq(G)[j])], mid |-> st.mid, x |-> Snap(AvgX),
                                 inner |-> Snap(InnerModel(st.mid, AvgX)), num |-> Snap(GroupAvgNum(G, st.mid, AvgX)), den |-> Cardinality(G)])>>))
  /\ (st.kind = "clim" =>
        PrintT(<<"CASE", ToJson([kind |-> "clim", T |-> st.T, mid |-> st.mid, consts |-> st.consts, sig |-> st.sig,
                                 x |-> Snap(ClimX), to1d |-> Snap(To1d(ClimX, st.T, st.consts)),
                                 xdyn |-> Snap(ClimXdyn), canon |-> CanonOrder(ClimXdyn),
                                 num |-> IF CanonOrder(ClimXdyn) THEN Snap(ClimateNum(st.mid, ClimXdyn, st.T)) ELSE Snap(ClimXdyn),
                                 rowsd |-> LET y == To1d(ClimX, st.T, st.consts) IN [i \in 1..Len(y.order) |-> RowsD(ClimX, y.order[i], st.T, st.consts)],
                                 numc |-> IF CanonOrder(ClimX) /\ st.consts # <<>> THEN Snap(ClimateNumC(st.mid, ClimX, st.T, st.consts)) ELSE Snap(ClimXdyn)])>>))
=============================================================================
