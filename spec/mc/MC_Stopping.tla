---------------------------- MODULE MC_Stopping ----------------------------
(***************************************************************************)
(* C19, MC + GEN: every loss history over Alphabet up to MaxLen.           *)
(* Every state prints its history with the prescribed verdict and best     *)
(* epoch; the harness walks each maximal history through TrainLoss /       *)
(* ValLoss / EpochStop and compares after every call.                      *)
(***************************************************************************)
EXTENDS Stopping, TLC, Json
CONSTANTS MaxLen
Init == SInit
Next == Len(hist) < MaxLen /\ SNext
Emit == PrintT(<<"CASE", ToJson([kind |-> Kind, patience |-> Patience, mindelta |-> MinDelta, epochs |-> Epochs,
                                 hist |-> hist, stopped |-> stopped, bestEpoch |-> bestEpoch])>>)
=============================================================================
