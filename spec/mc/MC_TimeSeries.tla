--------------------------- MODULE MC_TimeSeries ---------------------------
EXTENDS TimeSeries, TLC, Json
CONSTANTS MaxT, MaxP, MaxF, MaxDt, MaxS, MaxC
VARIABLE st
Init == st = [kind |-> "init"]
Pick == /\ st.kind = "init"
        /\ \E T \in 1..MaxT, p \in 1..MaxP, f \in 1..MaxF, dt \in 1..MaxDt, s \in 0..MaxS :
             /\ NWin(T, p, f, dt, s) >= 1
             /\ st' = [kind |-> "cfg", T |-> T, p |-> p, f |-> f, dt |-> dt, s |-> s]
Next == Pick
Laws == /\ (st.kind = "cfg" => WindowLaws(st.T, st.p, st.f, st.dt, st.s))
        /\ (st.kind = "init" => \A T \in 1..MaxT, p \in 1..MaxP, f \in 1..MaxF, dt \in 1..MaxDt, s \in 0..MaxS :
                                   NWin(T, p, f, dt, s) < 1 => OpWindows(T, p, f, dt, s) = <<>>)    \* no window when none fits
Emit == st.kind = "cfg" =>
  LET ws == DeclWindows(st.T, st.p, st.f, st.dt, st.s) IN
  PrintT(<<"CASE", ToJson([T |-> st.T, p |-> st.p, f |-> st.f, dt |-> st.dt, s |-> st.s, W |-> Len(ws),
                           xin |-> [w \in 1..Len(ws) |-> ws[w].inp], yout |-> [w \in 1..Len(ws) |-> ws[w].out],
                           xslots |-> [c \in 1..MaxC |-> [n \in 1..3 |-> XSlots(c, n - 1, st.p)]],
                           yslots |-> [c \in 1..MaxC |-> YSlots(c, st.f)]])>>)
=============================================================================
