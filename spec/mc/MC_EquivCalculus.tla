---------------------------- MODULE MC_EquivCalculus ----------------------------
(***************************************************************************)
(* Enumerates every layer configuration of the bounded space, builds the   *)
(* layer's data-flow graph and checks that it is well typed (=> the layer  *)
(* commutes with the group for every parameter value); every listed        *)
(* deviation must be ill typed; blocks (conv -> norm -> nonlinearity and   *)
(* the pre-activation order, with a residual sum) are typed by composing   *)
(* the layer graphs.  With Emit as an invariant the graphs are printed as  *)
(* JSON for harness/equivcalc.py (binding to the real layers).             *)
(***************************************************************************)
EXTENDS EquivCalculus

CONSTANTS MaxK,          \* highest tensor order of a block
          MaxFK,         \* highest filter order
          EmitGraphs     \* BOOLEAN

VARIABLE st
KP == {<<k, p>> : k \in 0..MaxK, p \in 0..1}
Modes == {"auto", "mean", "scalar", "none"}

ConvCases == {[kind |-> "conv", k |-> s[1], p |-> s[2], fk |-> fk, fp |-> fp, ok |-> ok, mode |-> m, useNorm |-> TRUE] :
                s \in KP, fk \in 0..MaxFK, fp \in 0..1, ok \in 0..MaxK, m \in Modes}
NormCases == {[kind |-> "groupnorm", k |-> s[1], p |-> s[2], fk |-> 0, fp |-> 0, ok |-> 0, mode |-> "", useNorm |-> TRUE] : s \in {t \in KP : t[1] <= 1}}
VNCases   == {[kind |-> "vn", k |-> s[1], p |-> s[2], fk |-> 0, fp |-> 0, ok |-> 0, mode |-> "", useNorm |-> TRUE] : s \in KP}
PoolCases == {[kind |-> "maxnormpool", k |-> s[1], p |-> s[2], fk |-> 0, fp |-> 0, ok |-> 0, mode |-> "", useNorm |-> u] : s \in KP, u \in BOOLEAN}
BlockCases == {[kind |-> b, k |-> s[1], p |-> s[2], fk |-> fk, fp |-> fp, ok |-> s[1], mode |-> m, useNorm |-> TRUE] :
                 b \in {"block-post", "block-pre"}, s \in {t \in KP : t[1] <= 1}, fk \in 0..MaxFK, fp \in 0..1, m \in Modes}
UNetCases == {[kind |-> "unet-level", k |-> s[1], p |-> s[2], fk |-> 0, fp |-> 0, ok |-> s[1], mode |-> m, useNorm |-> TRUE] : s \in KP, m \in Modes}
DevCases  == {[kind |-> "deviations", k |-> s[1], p |-> s[2], fk |-> 0, fp |-> 0, ok |-> 0, mode |-> "", useNorm |-> TRUE] : s \in KP}

Admissible(c) == c.kind \in {"conv", "block-post", "block-pre"} => ((c.k + c.fk - c.ok) % 2 = 0 /\ c.ok <= c.k + c.fk)
(* the signed max is offered by the code for order-0 blocks only (assert in geom.max_pool) and used by the equivariant  *)
(* models with use_norm = TRUE; it is equivariant exactly for true scalars                                              *)
PoolDeclared(c) == c.useNorm \/ (c.k = 0 /\ c.p = 0)

OutKP(c) == IF c.kind \in {"conv", "block-post", "block-pre", "unet-level"} THEN <<c.ok, Px(c.p, c.fp)>> ELSE <<c.k, c.p>>

Graph(c) ==
  LET G0 == InputG(c.k, c.p) IN
  CASE c.kind = "conv"        -> ConvContractG(G0, 1, c.k, c.p, c.fk, c.fp, c.ok, c.mode)
    [] c.kind = "groupnorm"   -> GroupNormG(G0, 1, c.k, c.p)
    [] c.kind = "vn"          -> VNG(G0, 1, c.k, c.p)
    [] c.kind = "maxnormpool" -> MaxNormPoolG(G0, 1, c.k, c.p, c.useNorm)
    [] c.kind = "block-post"  ->      \* conv -> group norm -> nonlinearity, residual sum with the input when types agree
         LET a == ConvContractG(G0, 1, c.k, c.p, c.fk, c.fp, c.ok, c.mode)
             o == OutKP(c)
             b == GroupNormG(a.g, a.out, o[1], o[2])
             d == VNG(b.g, b.out, o[1], o[2])
         IN IF o = <<c.k, c.p>> THEN ResidualG(d.g, 1, d.out) ELSE d
    [] c.kind = "block-pre"   ->      \* group norm -> nonlinearity -> conv
         LET b == GroupNormG(G0, 1, c.k, c.p)
             d == VNG(b.g, b.out, c.k, c.p)
             a == ConvContractG(d.g, d.out, c.k, c.p, c.fk, c.fp, c.ok, c.mode)
         IN IF OutKP(c) = <<c.k, c.p>> THEN ResidualG(a.g, 1, a.out) ELSE a
    [] c.kind = "unet-level"  ->      \* one level of the U-Net: block, norm-based pooling, block, up-sampling convolution (image dilation:
         LET a  == ConvContractG(G0, 1, c.k, c.p, 0, 0, c.k, c.mode)            \* the same convc rule), skip concatenation, decoding convolution
             b  == VNG(a.g, a.out, c.k, c.p)
             d  == MaxNormPoolG(b.g, b.out, c.k, c.p, TRUE)
             e  == ConvContractG(d.g, d.out, c.k, c.p, 0, 0, c.k, c.mode)
             e2 == VNG(e.g, e.out, c.k, c.p)
             u  == ConvContractG(e2.g, e2.out, c.k, c.p, 0, 0, c.k, c.mode)
             cc == [g |-> Ext(u.g, <<N0("concat", <<b.out, u.out>>)>>), out |-> Len(u.g) + 1]
         IN ConvContractG(cc.g, cc.out, c.k, c.p, 0, 0, c.k, c.mode)
    [] OTHER -> [g |-> G0, out |-> 1]

Init == st = [kind |-> "init"]
PickKind == st.kind = "init" /\ \E kd \in {"conv", "groupnorm", "vn", "maxnormpool", "block-post", "block-pre", "unet-level", "deviations"} : st' = [kind |-> "pick", what |-> kd]
PickCase == st.kind = "pick" /\ \E c \in (ConvCases \cup NormCases \cup VNCases \cup PoolCases \cup BlockCases \cup UNetCases \cup DevCases) :
                c.kind = st.what /\ Admissible(c) /\ st' = [kind |-> "case", c |-> c]
Next == PickKind \/ PickCase

(* every layer the library offers for a block type is well typed with the declared output type *)
LayersWellTyped ==
  (st.kind = "case" /\ st.c.kind # "deviations" /\ (st.c.kind = "maxnormpool" => PoolDeclared(st.c))) =>
     LET o == OutKP(st.c) IN WellTyped(Layer(Graph(st.c), o[1], o[2]))
(* the signed max on anything but a true scalar, and every listed deviation, is rejected *)
DeviationsIllTyped ==
  /\ (st.kind = "case" /\ st.c.kind = "maxnormpool" /\ ~PoolDeclared(st.c)) => IsBad(OutType(Graph(st.c)))
  /\ (st.kind = "case" /\ st.c.kind = "deviations") => \A d \in Deviations(st.c.k, st.c.p) : Closed(d.g) /\ IsBad(Types(d.g)[d.out])
(* parameters enter only through invariant-typed nodes: no node of a well-typed layer has a "component" parameter *)
ParamsInvariant ==
  (st.kind = "case" /\ st.c.kind # "deviations") => \A i \in 1..Len(Graph(st.c).g) : Graph(st.c).g[i].op = "param" => Graph(st.c).g[i].s = "channel"

DevCount == IF st.kind = "case" /\ st.c.kind = "deviations" THEN Cardinality(Deviations(st.c.k, st.c.p)) ELSE 0

SetSeq(S) == CHOOSE s \in [1..Cardinality(S) -> S] : \A i, j \in 1..Cardinality(S) : i # j => s[i] # s[j]
Emit == (EmitGraphs /\ st.kind = "case") =>
  IF st.c.kind = "deviations"
  THEN \A d \in Deviations(st.c.k, st.c.p) : PrintT(<<"CASE", ToJson([kind |-> "deviation", name |-> d.name, k |-> st.c.k, p |-> st.c.p, g |-> d.g, out |-> d.out,
                                                                       types |-> Types(d.g)])>>)
  ELSE PrintT(<<"CASE", ToJson([kind |-> st.c.kind, c |-> st.c, g |-> Graph(st.c).g, out |-> Graph(st.c).out, types |-> Types(Graph(st.c).g),
                                declared |-> (st.c.kind = "maxnormpool" => PoolDeclared(st.c))])>>)
=============================================================================
