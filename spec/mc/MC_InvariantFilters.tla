------------------------- MODULE MC_InvariantFilters -------------------------
(***************************************************************************)
(* C03.  init --Pick--> (group name, M, k, p).  Laws: FamilyLaws.  Emit: the*)
(* group (as matrices, handed verbatim to ginjax) and the family as dense   *)
(* {0,+1,-1} vectors.                                                       *)
(***************************************************************************)
EXTENDS InvariantFilters, TLC, Json

CONSTANTS D, GroupNames, Ms, Ks, MaxBasis      \* instances with M^D * D^k > MaxBasis are skipped

VARIABLE st

GroupOf(name) ==
  CASE name = "B"     -> B(D)
    [] name = "ROT"   -> Rotations(D)
    [] name = "FLIP"  -> Flips(D)
    [] name = "TRIV"  -> Trivial(D)
    [] name = "C4"    -> Closure({[p |-> <<2, 1>>, s |-> <<-1, 1>>]})                       \* d = 2
    [] name = "FLIPX" -> Closure({[p |-> [i \in 1..D |-> i], s |-> [i \in 1..D |-> IF i = 1 THEN -1 ELSE 1]]})
    [] name = "DIAG"  -> Closure({[p |-> <<2, 1>>, s |-> <<1, 1>>]})                        \* d = 2, transpose
    [] name = "C3"    -> Closure({[p |-> <<2, 3, 1>>, s |-> <<1, 1, 1>>]})                  \* d = 3
    [] name = "S3"    -> Closure({[p |-> <<2, 3, 1>>, s |-> <<1, 1, 1>>], [p |-> <<2, 1, 3>>, s |-> <<1, 1, 1>>]})
    [] name = "C4Z"   -> Closure({[p |-> <<2, 1, 3>>, s |-> <<-1, 1, 1>>]})                 \* d = 3, rotation about z

Init == st = [kind |-> "init"]
Pick == /\ st.kind = "init"
        /\ \E n \in GroupNames, M \in Ms, k \in Ks, p \in {0, 1} :
             /\ Pow(M, D) * Pow(D, k) <= MaxBasis
             /\ (n = "TRIV" => k <= 1)
             /\ st' = [kind |-> "inst", name |-> n, M |-> M, k |-> k, p |-> p]
Next == Pick

Laws == st.kind = "inst" => FamilyLaws(GroupOf(st.name), D, st.M, st.k, st.p)

Emit == st.kind = "inst" =>
  LET G == GroupOf(st.name)
      F == Family(G, D, st.M, st.k, st.p)
  IN PrintT(<<"CASE", ToJson([d |-> D, group |-> st.name, M |-> st.M, k |-> st.k, p |-> st.p,
                              ops |-> {Mat(g) : g \in G}, order |-> Cardinality(G),
                              chardim |-> CharNum(G, D, st.M, st.k, st.p) \div Cardinality(G),
                              family |-> {Dense(v, D, st.M, st.k) : v \in F}])>>)
=============================================================================
