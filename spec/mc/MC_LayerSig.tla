---------------------------- MODULE MC_LayerSig ----------------------------
(***************************************************************************)
(* C11 / C20, signature level: every (input signature, target signature,   *)
(* bank key set, bias mode) within the bounds.  Laws are consistency        *)
(* properties of Emitted; Emit hands the expected output signature to the   *)
(* harness, which builds the real layer and compares.                       *)
(***************************************************************************)
EXTENDS ConvContractLayer, TLC, Json

CONSTANTS InSigs, TgtSigs, BankKeySets, ModeSet

VARIABLE st
Init == st = [kind |-> "init"]
Pick == st.kind = "init" /\ \E i \in InSigs, t \in TgtSigs, bk \in BankKeySets, m \in ModeSet :
           st' = [kind |-> "case", ins |-> i, tgt |-> t, bank |-> bk, mode |-> m]
Next == Pick

Types(sig) == {sig[i][1] : i \in 1..Len(sig)}
Laws == st.kind = "case" =>
  LET e == Emitted(st.ins, st.tgt, st.bank) IN
  /\ Types(e) \subseteq Types(st.tgt)                                                  \* only requested types ...
  /\ \A i \in 1..Len(st.tgt) : (st.tgt[i] \in {e[j] : j \in 1..Len(e)}) <=> Reachable(Types(st.ins), st.tgt[i][1], st.bank)
                                                                                       \* ... every reachable one, with its channels
  /\ \A i, j \in 1..Len(e) : i < j =>                                                  \* ... in the requested order
        (CHOOSE a \in 1..Len(st.tgt) : st.tgt[a] = e[i]) < (CHOOSE a \in 1..Len(st.tgt) : st.tgt[a] = e[j])
  /\ \A t \in Types(e) : BiasKind(st.mode, t) = "add" => t = <<0, 0>>                  \* additive constants only on true scalars
Emit == st.kind = "case" =>
  PrintT(<<"CASE", ToJson([ins |-> st.ins, tgt |-> st.tgt, bank |-> st.bank, mode |-> st.mode,
                           out |-> Emitted(st.ins, st.tgt, st.bank),
                           bias |-> [i \in 1..Len(st.tgt) |-> BiasKind(st.mode, st.tgt[i][1])]])>>)
=============================================================================
