--------------------------- MODULE MC_GroupAction ---------------------------
(***************************************************************************)
(* C02 -- the group action is a genuine, type-correct action.              *)
(*                                                                         *)
(* MC + GEN instance over Hyperoctahedral / GeomImage!Act.  The state      *)
(* graph is a three-level fan-out                                          *)
(*     init --PickShape--> (dims,k,p) --PickG--> g --PickH--> (g,h)        *)
(* so every (shape, type, g) and, on PairShapes, every (g,h) is one state. *)
(* `Laws` is the property on the design; `Emit` prints, for every           *)
(* (shape,type,g), the signed permutation of entries that the spec          *)
(* prescribes -- the harness replays it into ginjax's three entry points.  *)
(***************************************************************************)
EXTENDS GeomImage, TLC, Json

CONSTANTS D,            \* dimension
          Shapes,       \* set of extents tuples
          Ks,           \* set of tensor orders
          PairShapes,   \* shapes on which all pairs (g,h) are checked at value level
          PairKs,
          EmitCases     \* BOOLEAN: print CASE lines

VARIABLE st

Init == st = [kind |-> "init"]

PickShape == /\ st.kind = "init"
             /\ \E dims \in Shapes, k \in Ks, p \in {0, 1} :
                  /\ (D = 1 => k = 0)
                  /\ st' = [kind |-> "shape", dims |-> dims, k |-> k, p |-> p]
PickG == /\ st.kind = "shape"
         /\ \E g \in B(D) : st' = [kind |-> "g", dims |-> st.dims, k |-> st.k, p |-> st.p, g |-> g]
PickH == /\ st.kind = "g" /\ st.dims \in PairShapes /\ st.k \in PairKs
         /\ \E h \in B(D) : st' = [kind |-> "gh", dims |-> st.dims, k |-> st.k, p |-> st.p, g |-> st.g, h |-> h]
Next == PickShape \/ PickG \/ PickH

Tok == Token(st.dims, st.k, st.p)
Abs(x) == IF x < 0 THEN -x ELSE x

SingleLaws ==
  LET T  == Tok
      gT == Act(st.g, T)
  IN /\ Act(Id(D), T) = T                                            \* identity acts trivially
     /\ Act(Inv(st.g), gT) = T                                       \* g^-1 undoes g
     /\ gT.dims = OutDims(st.g, st.dims) /\ gT.k = st.k /\ gT.p = st.p
     /\ Len(gT.val) = Len(T.val)
     /\ {Abs(gT.val[m]) : m \in 1..Len(gT.val)} = 1..Len(T.val)       \* signed permutation: linear + bijective
     /\ NormSq(gT) = Act(st.g, NormSq(T))                            \* every pixel's Frobenius norm moves with it
     /\ MoveLaws(st.g, Id(D), st.dims)

PairLawsHere ==
  LET T == Tok IN
  /\ PairLaws(st.g, st.h)
  /\ MoveLaws(st.g, st.h, st.dims)
  /\ Act(Mul(st.g, st.h), T) = Act(st.g, Act(st.h, T))              \* (g h).A = g.(h.A), incl. intermediate shape

Laws == /\ (st.kind = "init" => GroupAxioms(D))
        /\ (st.kind = "g"    => SingleLaws)
        /\ (st.kind = "gh"   => PairLawsHere)

Emit ==
  /\ (EmitCases /\ st.kind = "init") =>
        PrintT(<<"CASE", ToJson([kind |-> "groups", d |-> D,
                                 full  |-> {Mat(g) : g \in B(D)},
                                 flips |-> {Mat(g) : g \in Flips(D)},
                                 rot   |-> {Mat(g) : g \in Rotations(D)}])>>)
  /\ (EmitCases /\ st.kind = "g") =>
        PrintT(<<"CASE", ToJson([kind |-> "act", d |-> D, dims |-> st.dims, k |-> st.k, p |-> st.p,
                                 g |-> [p |-> st.g.p, s |-> st.g.s], mat |-> Mat(st.g),
                                 odims |-> OutDims(st.g, st.dims),
                                 axes  |-> ActFlags(st.g, [i \in 1..D |-> i]),   \* output axis i carries input axis axes[i]
                                 val |-> Act(st.g, Tok).val])>>)
=============================================================================
