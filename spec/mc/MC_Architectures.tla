--------------------------- MODULE MC_Architectures ---------------------------
(***************************************************************************)
(* C20 / C07, structure: the whole bounded constructor space.              *)
(*   init --PickCfg--> cfg --AStep*--> finished | stuck                    *)
(* ArchInv: admissible configurations never get stuck, preserve the        *)
(* spatial shape and deliver exactly the requested signature in requested  *)
(* order; inadmissible ones are explored too (their outcome is what the    *)
(* trace validation holds the real models to).                             *)
(***************************************************************************)
EXTENDS Architectures, TLC, Json

CONSTANTS Classes, Equivs, DSet, InSigs, OutSigs, Depths, BlockSet, NConvs, NDowns, GNs, Preacts, Banks, UpBanks, DimSet

VARIABLE started

Cfgs == {c \in [cls : Classes, equiv : Equivs, D : DSet, ins : InSigs, outs : OutSigs, depth : Depths, blocks : BlockSet,
                nconv : NConvs, ndown : NDowns, gn : GNs, preact : Preacts, bank : Banks, upbank : UpBanks, dims : DimSet] :
           /\ Len(c.dims) = c.D
           /\ (c.cls = "UNet" => c.blocks = 1 /\ ~c.preact)                         \* fields the class does not read: canonical value
           /\ (c.cls = "ResNet" => c.ndown = 0)
           /\ (c.cls = "DilResNet" => c.ndown = 0 /\ c.nconv = 1 /\ ~c.preact)
           /\ (c.cls # "UNet" => c.upbank = c.bank)
           /\ (~c.equiv => c.bank = {<<0, 0>>} /\ c.upbank = {<<0, 0>>})}

DummyCfg == [cls |-> "none", equiv |-> TRUE, D |-> 2, ins |-> <<>>, outs |-> <<>>, depth |-> 1, blocks |-> 0, nconv |-> 0, ndown |-> 0,
             gn |-> FALSE, preact |-> FALSE, bank |-> {}, upbank |-> {}, dims |-> <<2, 2>>]
Init == started = FALSE /\ AInit(DummyCfg)
PickCfg == ~started /\ started' = TRUE /\ \E c \in Cfgs : AReset(c)
Run == started /\ started' = started /\ AStep
Next == PickCfg \/ Run

AInv == started => ArchInv
Emit == (started /\ (Finished \/ stuck # "")) =>
  PrintT(<<"CASE", ToJson([cfg |-> [cfg EXCEPT !.bank = SetToSortSeq(cfg.bank), !.upbank = SetToSortSeq(cfg.upbank)],
                           admissible |-> ArchAdmissible(cfg), stuck |-> stuck, nstages |-> Len(Stages(cfg)), reached |-> pc - 1,
                           final |-> IF stuck = "" THEN FinalSeq(cfg, cur) ELSE <<>>, period |-> TranslationPeriod(cfg)])>>)
=============================================================================
