---------------------------- MODULE MC_Benchmark ----------------------------
(***************************************************************************)
(* Exhaustive exploration of the benchmarking loop for small constants:    *)
(* every configuration of the bounded lattice (picked in two levels), the  *)
(* environment choosing each model's scores; BenchInv on every state,      *)
(* termination, and the Return guards satisfiable exactly by the table     *)
(* built from the recorded scores.                                         *)
(***************************************************************************)
EXTENDS Benchmark

CONSTANTS MaxT, Ranges, NameSets, Qs, Scores

BTypes == {"data", "model", "none"}
KwOf(name) == IF name = "b" THEN <<<<"width", 3>>, <<"depth", 1>>>> ELSE IF name = "c" THEN <<<<"depth", 9>>>> ELSE <<>>
Cfgs == {[T |-> t, btype |-> bt, bname |-> "depth", range |-> r, names |-> ns, mkw |-> [n \in 1..Len(ns) |-> KwOf(ns[n])], Q |-> q] :
           t \in 0..MaxT, bt \in BTypes, r \in Ranges, ns \in NameSets, q \in Qs}

Init == /\ cfg = [kind |-> "unset"] /\ phase = "pick" /\ i = 0 /\ j = 0 /\ k = 0 /\ calls = 0
        /\ dataId = -1 /\ dataLog = <<>> /\ hist = <<>>
PickCfg == phase = "pick" /\ \E c \in Cfgs : BReset(c)

DoGetData  == phase = "data" /\ GetData([key |-> calls + 1, kw |-> IF cfg.btype = "data" THEN <<<<EName(cfg), Val(cfg, j)>>>> ELSE <<>>, id |-> calls + 1])
KwSeq(S) == CHOOSE s \in [1..Cardinality(S) -> S] : SeqRange(s) = S
(* the environment's scores: free on the first two model calls (so that tables with equal and with different neighbouring
   scores are both explored), then a fixed varied pattern -- otherwise the state space is |Scores|^(Q * calls) per configuration *)
ResChoices == IF Len(hist) < 2 THEN [1..cfg.Q -> Scores] ELSE {[q \in 1..cfg.Q |-> (3 * Len(hist) + q) % 7]}
DoRunModel == phase = "models" /\ \E res \in ResChoices :
                 RunModel([key |-> calls + 1, data |-> dataId, mname |-> cfg.names[k + 1], runname |-> ExpRunName,
                           kw |-> KwSeq(ExpModelKw), res |-> res])
Table == [n \in 1..(Cells(cfg) * M(cfg) * cfg.Q) |-> hist[((n - 1) \div cfg.Q) + 1].res[((n - 1) % cfg.Q) + 1]]
DoReturn   == phase = "done" /\ Return([shape |-> <<cfg.T, R(cfg), M(cfg), cfg.Q>>, vals |-> Table, kwIntact |-> TRUE])

Next == PickCfg \/ DoGetData \/ DoRunModel \/ DoReturn
Spec == Init /\ [][Next]_bvars /\ WF_bvars(Next)

Inv == phase # "pick" => BenchInv
Terminates == <>(phase = "returned")
(* a table whose cells are permuted is rejected as soon as two scores differ (the Return guard is not vacuous) *)
ReturnSharp == (phase = "done" /\ Len(hist) >= 2 /\ cfg.Q = 1 /\ hist[1].res # hist[2].res) =>
                 ~BAllTrue(ReturnGuards([shape |-> <<cfg.T, R(cfg), M(cfg), cfg.Q>>,
                                         vals |-> [Table EXCEPT ![1] = Table[2], ![2] = Table[1]], kwIntact |-> TRUE]))
=============================================================================
