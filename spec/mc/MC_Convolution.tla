--------------------------- MODULE MC_Convolution ---------------------------
(***************************************************************************)
(* C01 / C04, index level.  MC + GEN instance over Convolution.tla.        *)
(*                                                                         *)
(*    init --PickShard--> (N, M) --PickCfg--> c (admissible lattice cell)  *)
(*         --PickG--> (c, g)                                               *)
(*                                                                         *)
(* Laws:  ShapeOK and Translates in every cell; Covariant(g,c) for every   *)
(* g on cells with unit stride (symmetric boundary treatments; asymmetric  *)
(* explicit paddings are transported with lo/hi swapped on reflected axes, *)
(* so they are covariant too and are checked as well).                     *)
(* Emit:  the tap table of the cells selected by Sel (deterministic        *)
(* sub-sample keyed by Seed), replayed into geom.convolve by the harness.  *)
(***************************************************************************)
EXTENDS Convolution, TLC, Json

CONSTANTS D, Ns, Ms, Modes, Pads, StrideSet, RdilSet, LdilSet,
          GroupMode,     \* "all": every g in B(D);  "gens": a generating set;  "none": no PickG
          SampleMod, Seed

VARIABLE st

FlagSets == [1..D -> BOOLEAN]
AllFalse == [j \in 1..D |-> FALSE]
ZeroPad  == [j \in 1..D |-> <<0, 0>>]

(* the admissible cells of the option lattice; the quantifiers are nested with dependent domains so that TLC never builds
   the unfiltered product (which exceeds its 10^6-element set bound for the thorough constants) *)
MkCfg(N, M, torus, mode, pad, stride, rdil, ldil) ==
  [N |-> N, M |-> M, torus |-> torus, mode |-> mode, pad |-> pad, stride |-> stride, rdil |-> rdil, ldil |-> ldil]
FlagsFor(mode) == IF mode = "TORUS" THEN FlagSets ELSE {AllFalse}          \* flags are read in TORUS mode only
PadsFor(mode)  == IF mode = "EXPL" THEN Pads ELSE {ZeroPad}

Gens == IF D = 2 THEN {[p |-> <<2, 1>>, s |-> <<-1, 1>>], [p |-> <<1, 2>>, s |-> <<-1, 1>>]}
        ELSE {[p |-> <<2, 1, 3>>, s |-> <<-1, 1, 1>>],      \* 4-fold rotation about axis 3
              [p |-> <<2, 3, 1>>, s |-> <<1, 1, 1>>],       \* 3-cycle
              [p |-> <<1, 2, 3>>, s |-> <<-1, 1, 1>>]}      \* reflection
Elems == IF GroupMode = "all" THEN B(D) ELSE IF GroupMode = "gens" THEN Gens ELSE {}

Init == st = [kind |-> "init"]
(* two-level fan-out: TLC expands the successors of ONE state on one worker, so the lattice is first split into
   shards (image extent x filter extent) that the workers then expand in parallel *)
PickShard == /\ st.kind = "init"
             /\ \E N \in Ns, M \in Ms : st' = [kind |-> "shard", N |-> N, M |-> M]
PickCfg == /\ st.kind = "shard"
           /\ \E mode \in Modes, stride \in StrideSet, rdil \in RdilSet, ldil \in LdilSet :
                \E torus \in FlagsFor(mode), pad \in PadsFor(mode) :
                   LET c == MkCfg(st.N, st.M, torus, mode, pad, stride, rdil, ldil) IN
                   Admissible(c) /\ st' = [kind |-> "cfg", c |-> c]
PickG   == st.kind = "cfg" /\ UnitStride(st.c) /\ \E g \in Elems : st' = [kind |-> "cg", c |-> st.c, g |-> g]
Next == PickShard \/ PickCfg \/ PickG

Laws == /\ (st.kind = "init" => (GroupMode = "gens" => Closure(Gens) = B(D)))
        /\ (st.kind = "cfg"  => ShapeOK(st.c) /\ Translates(st.c))
        /\ (st.kind = "cg"   => Covariant(st.g, st.c))

(* deterministic pseudo-random selection of the cells whose tables are emitted *)
SeqHash(s) == SumSeq([j \in 1..Len(s) |-> (j * 7 + 3) * s[j]])
CfgHash(c) == 31 * SeqHash(c.N) + 17 * SeqHash(c.M) + 13 * SeqHash(c.rdil) + 11 * SeqHash(c.ldil)
              + 5 * SeqHash(c.stride) + 3 * SeqHash([j \in 1..D |-> IF c.torus[j] THEN 1 ELSE 0])
              + 7 * SeqHash([j \in 1..D |-> c.pad[j][1] + 2 * c.pad[j][2]])
              + (CASE c.mode = "TORUS" -> 1 [] c.mode = "SAME" -> 2 [] c.mode = "VALID" -> 3 [] OTHER -> 4)
Sel(c) == (CfgHash(c) + Seed) % SampleMod = 0

Emit == (st.kind = "cfg" /\ Sel(st.c)) =>
          PrintT(<<"CASE", ToJson([kind |-> "taptable", cfg |-> st.c, out |-> Out(st.c), table |-> TapTable(st.c)])>>)
=============================================================================
