---------------------------- MODULE MC_EvalLoop ----------------------------
(***************************************************************************)
(* Exhaustive exploration of the evaluation-in-batches design for small    *)
(* constants: every duplicate-free batching order of floor(L/B)*B of the L *)
(* samples; EvalInv (every evaluated sample enters loss and map exactly    *)
(* once) and termination.                                                  *)
(***************************************************************************)
EXTENDS TrainLoop, TLC

CONSTANTS L, B, WithMap

Cfg == [kind |-> "eval", monitor |-> "train", patience |-> 0, mindelta |-> 0, epochs |-> 0,
        L |-> L, B |-> B, keyed |-> TRUE, hasval |-> FALSE, LV |-> B, withmap |-> WithMap, start |-> "evalbatching"]

Init == /\ cfg = Cfg /\ epoch = 0 /\ phase = "evalbatching" /\ best = INF /\ bestModel = 0 /\ since = 0
        /\ stopped = FALSE /\ version = 0 /\ step = 0 /\ batches = <<>> /\ bank = "same" /\ hist = <<>>

Orders == {o \in [1..(NB(Cfg) * B) -> 0..(L - 1)] : \A i, j \in 1..(NB(Cfg) * B) : i # j => o[i] # o[j]}
ObsOf(o, nb) == [b \in 1..nb |-> [mi |-> 1, batch |-> b, idx |-> [i \in 1..B |-> o[(b - 1) * B + i]]]]

DoEvalBatches == \E o \in Orders : EvalBatches([obs |-> ObsOf(o, NB(Cfg))])
DoEvalStep    == phase = "evaluating" /\ step < NB(Cfg) /\
                 EvalStep([x |-> <<batches[step + 1]>>, y |-> <<batches[step + 1], batches[step + 1]>>, vin |-> version,
                           inference |-> TRUE, loss |-> SumH(batches[step + 1])])
DoEvalReturn  == EvalReturn([lossTimesNB |-> SumH(hist), map |-> <<FlatB(batches), FlatB(batches)>>])

Next == DoEvalBatches \/ DoEvalStep \/ DoEvalReturn
Spec == Init /\ [][Next]_tvars /\ WF_tvars(Next)
Terminates == <>(phase = "evaldone")
=============================================================================
