---------------------------- MODULE MC_TrainLoop ----------------------------
(***************************************************************************)
(* Exhaustive exploration of the training-loop design for small constants: *)
(* every loss history over Alphabet, every epoch permutation, every        *)
(* allowed filter-bank evolution.  LoopInv; and, with a single-letter      *)
(* alphabet (non-improving history) and weak fairness, termination.        *)
(***************************************************************************)
EXTENDS TrainLoop, TLC

CONSTANTS Kind, Monitor, Patience, MinDelta, Epochs, L, B, HasVal, Alphabet, MaxEpoch

Cfg == [kind |-> Kind, monitor |-> Monitor, patience |-> Patience, mindelta |-> MinDelta, epochs |-> Epochs,
        L |-> L, B |-> B, keyed |-> TRUE, hasval |-> HasVal, LV |-> B]

Init == TInit(Cfg)

Orders == {o \in [1..(NB(Cfg) * B) -> 0..(L - 1)] : \A i, j \in 1..(NB(Cfg) * B) : i # j => o[i] # o[j]}
ObsOf(o, nb) == [b \in 1..nb |-> [mi |-> 1, batch |-> b, idx |-> [i \in 1..B |-> o[(b - 1) * B + i]]]]

DoStopCheck == \E tl \in Alphabet, vl \in Alphabet :
   LET e0 == [epoch |-> epoch, model |-> version, tlNone |-> (epoch = 0), tl |-> tl,
              vlNone |-> (epoch = 0 \/ ~HasVal), vl |-> vl, ret |-> FALSE, best |-> 0]
       e  == [e0 EXCEPT !.ret = ExpRet(e0), !.best = ExpBest(e0)]
   IN StopCheck(e)
DoMakeBatches == \E o \in Orders : MakeBatches([obs |-> ObsOf(o, NB(Cfg))])
DoValBatches  == ValBatches([obs |-> [b \in 1..1 |-> [mi |-> 1, batch |-> 1, idx |-> [i \in 1..B |-> i - 1]]]])
DoTrainStep   == \E bk \in {"same", "scaled"} :
                   phase = "stepping" /\ step < NB(Cfg) /\
                   TrainStep([x |-> <<batches[step + 1]>>, y |-> <<batches[step + 1], batches[step + 1]>>,
                              vin |-> version, vout |-> version + 1, bank |-> bk])
DoReturn      == Return([model |-> bestModel])

Next == DoStopCheck \/ DoMakeBatches \/ DoValBatches \/ DoTrainStep \/ DoReturn
Bound == epoch <= MaxEpoch
Spec == Init /\ [][Next]_tvars /\ WF_tvars(Next)
Terminates == <>(phase = "returned")
=============================================================================
