#!/venv/bin/python
"""Binding demonstration for the trace specifications (DESIGN 5.2 (i)): take traces recorded from the real code that the
specification ACCEPTS, corrupt one recorded field or drop one event, and require the trace validator to REJECT the corrupted
trace naming the expected guard.  Exit 0 iff every corruption is rejected as expected and every pristine trace is accepted."""
import copy
import os
import sys

sys.path.insert(0, os.path.dirname(os.path.dirname(os.path.abspath(__file__))))
from harness import archlib, core, tracelib  # noqa: E402
core.setup_repo_path()


def main():
    from harness.checks import c17, c19
    ok = True
    chk = core.Check("SELFTEST", "quick")
    # ---- TrainLoop: a real scripted ml.train run, full focus --------------------------------------------------
    spec = dict(kind="patience", monitor="train", patience=1, mindelta=0, epochs=0, hist=[5, 3, 3, 4], fill=5, vhist=[9, 9, 9, 9], vfill=9,
                extra=3, L=6, B=2, hasval=False, LV=2, focus="all")
    t = c19.train_run((1, spec, 0))
    base = {"tid": 1, "cfg": t["cfg"], "events": t["events"]}
    muts = [("pristine", base, None)]

    def mutate(name, fn, expect):
        tr = copy.deepcopy(base)
        fn(tr["events"])
        tr["tid"] = len(muts) + 1
        muts.append((name, tr, expect))
    sc = [i for i, e in enumerate(base["events"]) if e["ev"] == "StopCheck"]
    ts = [i for i, e in enumerate(base["events"]) if e["ev"] == "TrainStep"]
    mb = [i for i, e in enumerate(base["events"]) if e["ev"] == "MakeBatches"]
    mutate("flip a stop() return value", lambda ev: ev[sc[2]].__setitem__("ret", not ev[sc[2]]["ret"]), "stops exactly when")
    mutate("wrong best_model", lambda ev: ev[sc[2]].__setitem__("best", 0), "best_model")
    mutate("drop a TrainStep", lambda ev: ev.pop(ts[1]), "")
    mutate("targets misaligned", lambda ev: ev[ts[0]]["y"].__setitem__(0, list(reversed(ev[ts[0]]["y"][0]))), "targets are aligned")
    mutate("duplicate sample in an epoch", lambda ev: [o.__setitem__("idx", [o["idx"][0]] * len(o["idx"])) for o in ev[mb[0]]["obs"] if o["batch"] == 1], "")
    mutate("filter bank changed", lambda ev: ev[ts[2]].__setitem__("bank", "changed"), "filter bank")
    mutate("return a non-best model", lambda ev: ev[-1].__setitem__("model", ev[-1]["model"] + 1), "returned model")
    verdicts = tracelib.validate(chk, "trace/Trace_TrainLoop.tla", [m[1] for m in muts], workers=4)
    for name, tr, expect in muts:
        v = verdicts[tr["tid"]]
        good = (v[0] == "ACCEPT") if expect is None else (v[0] == "REJECT" and expect in v[2])
        ok &= good
        print("%-34s -> %s%s   %s" % (name, v[0], (" @%d: %s" % (v[1], v[2][:70])) if v[0] == "REJECT" else "", "ok" if good else "UNEXPECTED"))
    # ---- Architectures: a real U-Net forward pass -----------------------------------------------------------------
    B2 = [[0, 0], [1, 0], [1, 1], [2, 0], [2, 1]]
    cfg = dict(cls="UNet", equiv=True, D=2, ins=[[[0, 0], 1], [[1, 0], 1]], outs=[[[1, 0], 1], [[0, 0], 2]], depth=2, blocks=1, nconv=1, ndown=1,
               gn=False, preact=False, bank=B2, upbank=B2, dims=[4, 4])
    events, out, _ = archlib.record_forward(cfg, 0)
    base2 = {"tid": 1, "cfg": cfg, "events": events}
    muts2 = [("pristine forward pass", base2, None)]

    def mutate2(name, fn, expect):
        tr = copy.deepcopy(base2)
        fn(tr["events"])
        tr["tid"] = len(muts2) + 1
        muts2.append((name, tr, expect))
    conv = [i for i, e in enumerate(events) if e["kind"] == "Conv"]
    mutate2("wrong channel count after a conv", lambda ev: ev[conv[1]]["sig"][0].__setitem__(1, 7), "types and channel counts")
    mutate2("drop the pooling stage", lambda ev: ev.pop([i for i, e in enumerate(ev) if e["kind"] == "Pool"][0]), "stage kind")
    mutate2("output order swapped", lambda ev: ev[-1].__setitem__("sig", list(reversed(ev[-1]["sig"]))), "ORDER")
    mutate2("output extents changed", lambda ev: ev[-1].__setitem__("dims", [2, 4]), "spatial shape")
    verdicts = tracelib.validate(chk, "trace/Trace_Architectures.tla", [m[1] for m in muts2], workers=4, extra_invariants=("AInv",))
    for name, tr, expect in muts2:
        v = verdicts[tr["tid"]]
        good = (v[0] == "ACCEPT") if expect is None else (v[0] == "REJECT" and expect in v[2])
        ok &= good
        print("%-34s -> %s%s   %s" % (name, v[0], (" @%d: %s" % (v[1], v[2][:70])) if v[0] == "REJECT" else "", "ok" if good else "UNEXPECTED"))
    print("corrupt-trace self-test:", "PASS" if ok else "FAIL")
    return 0 if ok else 1


if __name__ == "__main__":
    sys.exit(main())
