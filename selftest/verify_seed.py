#!/venv/bin/python
"""Confirm a seeded change (patch.diff + demo.py) in scratch copies of the repository outside /repo and /verif:
   demo passes on the unchanged tree, fails on the changed tree; the named test files still pass with the change;
   then run the named checks against the changed tree.  usage: verify_seed.py <seed dir> <Cxx> [--tests t1.py,t2.py] [--checks Cxx,Cyy]"""
import json
import os
import shutil
import subprocess
import sys
import tempfile
import time

VERIF = os.path.dirname(os.path.dirname(os.path.abspath(__file__)))


def run(cmd, cwd, env=None, timeout=3600):
    p = subprocess.run(cmd, cwd=cwd, env=env, capture_output=True, text=True, timeout=timeout)
    return p.returncode, (p.stdout + p.stderr)


def main():
    seed, prop = sys.argv[1], sys.argv[2]
    tests = sys.argv[sys.argv.index("--tests") + 1].split(",") if "--tests" in sys.argv else []
    checks = sys.argv[sys.argv.index("--checks") + 1].split(",") if "--checks" in sys.argv else [prop]
    res = {"property": prop, "ran_at": time.strftime("%Y-%m-%d %H:%M:%S"), "checks": {}}
    base = tempfile.mkdtemp(prefix="seed-base-", dir="/tmp")
    mut = tempfile.mkdtemp(prefix="seed-mut-", dir="/tmp")
    try:
        for d in (base, mut):
            shutil.copytree("/repo/src", os.path.join(d, "src"))
            shutil.copytree("/repo/tests", os.path.join(d, "tests"))
            shutil.copy(os.path.join(seed, "demo.py"), os.path.join(d, "demo.py"))
        pf = "patch_rebased.diff" if os.path.exists(os.path.join(seed, "patch_rebased.diff")) else "patch.diff"
        res["patch_file"] = pf
        rc, out = run(["patch", "-p1", "-s", "-i", os.path.join(os.path.abspath(seed), pf)], mut)
        if rc != 0:
            print("PATCH FAILED", out)
            return 2
        for name, d in (("unchanged", base), ("changed", mut)):
            env = dict(os.environ, PYTHONPATH=os.path.join(d, "src"), JAX_PLATFORMS="cpu")
            rc, out = run(["/venv/bin/python", "demo.py"], d, env, timeout=3000)
            res["demo_" + name] = {"exit": rc, "tail": out.strip().splitlines()[-3:]}
            print("demo on %s tree: exit %d" % (name, rc))
        if tests:
            env = dict(os.environ, PYTHONPATH=os.path.join(mut, "src"), JAX_PLATFORMS="cpu")
            rc, out = run(["/venv/bin/python", "-m", "pytest", "-q", "-p", "no:cacheprovider", "--timeout=900"] + ["tests/" + t for t in tests], mut, env, timeout=7200)
            res["tests_with_change"] = {"files": tests, "exit": rc, "tail": out.strip().splitlines()[-1:]}
            print("tests with change: exit %d %s" % (rc, out.strip().splitlines()[-1:]))
        env = dict(os.environ, VERIF_REPO=mut, VERIF_EVIDENCE_DIR=os.path.join(mut, "evidence"), VERIF_REPLAY_DIR=os.path.join(mut, "replay"))
        for c in checks:
            rc, out = run([os.path.join(VERIF, "bin", "check"), c, "--tier", "quick"], VERIF, env, timeout=7200)
            lines = [l for l in out.splitlines() if l.startswith(("VIOLATION", "  detail"))]
            res["checks"][c] = {"exit": rc, "first": lines[:2]}
            print("check %s on changed tree: exit %d" % (c, rc))
            for l in lines[:2]:
                print("   ", l[:260])
        res["confirmed"] = res["demo_unchanged"]["exit"] == 0 and res["demo_changed"]["exit"] != 0 and (not tests or res["tests_with_change"]["exit"] == 0)
        with open(os.path.join(seed, "verify_result.json"), "w") as f:
            json.dump(res, f, indent=1)
        return 0
    finally:
        shutil.rmtree(base, ignore_errors=True)
        shutil.rmtree(mut, ignore_errors=True)


if __name__ == "__main__":
    sys.exit(main())
