#!/venv/bin/python
"""Regenerate seeded/README.md from the meta.json files (plus the optional `history` note in each)."""
import glob
import json
import os

VERIF = os.path.dirname(os.path.dirname(os.path.abspath(__file__)))
HEAD = """# Seeded changes (written by independent sub-agents that saw only the property text)

Each directory holds patch.diff (against /repo at the time the sub-agent worked; patch_rebased.diff where a later fix: commit
touched the same lines), demo.py (exits 1 on the changed tree, 0 on the unchanged tree), notes.md (the author's notes), meta.json
and verify_result.json (written by selftest/verify_seed.py: demo on both trees, related repository tests with the change, and the
listed checks run against the changed tree through VERIF_REPO).  None of these changes was ever committed to /repo.

| id | change | detected by (quick tier) |
|---|---|---|
"""


def main():
    rows = []
    for d in sorted(glob.glob(os.path.join(VERIF, "seeded", "C*"))):
        mp = os.path.join(d, "meta.json")
        if not os.path.exists(mp):
            continue
        m = json.load(open(mp))
        text = "%s; needs: %s" % (m["breaks"], m["needs_to_manifest"])
        if m.get("history"):
            text += " -- " + m["history"]
        if m.get("verdict"):
            text += " -- VERDICT: " + m["verdict"]
        det = ", ".join("%s (exit %s)" % (c, e) for c, e in m["checks_run_against_it"].items())
        rows.append("| %s | %s | %s |" % (os.path.basename(d), text.replace("|", "\\|"), det))
    open(os.path.join(VERIF, "seeded", "README.md"), "w").write(HEAD + "\n".join(rows) + "\n")
    print(len(rows), "rows")


main()
