#!/venv/bin/python
"""Re-run, for every seeded change, the checks recorded in its meta.json as detecting it (exit 1) against the changed tree
(scratch copy under /tmp, VERIF_REPO).  usage: selftest/regress_seeds.py [-j N] [--checks Cxx,Cyy] [seed ids...]   exit 0 iff every one is still detected."""
import glob
import json
import os
import subprocess
import sys
from concurrent.futures import ThreadPoolExecutor

VERIF = os.path.dirname(os.path.dirname(os.path.abspath(__file__)))


def one(job):
    seed, check = job
    pf = "patch_rebased.diff" if os.path.exists(os.path.join(VERIF, "seeded", seed, "patch_rebased.diff")) else "patch.diff"
    p = subprocess.run([os.path.join(VERIF, "selftest", "run_mutant.py"), os.path.join(VERIF, "seeded", seed, pf), check],
                       capture_output=True, text=True, cwd=VERIF)
    out = p.stdout + p.stderr
    line = [l for l in out.splitlines() if l.startswith("== ")]
    return seed, check, p.returncode, (line[0] if line else out[-200:])


def main():
    args = sys.argv[1:]
    j = 4
    if "-j" in args:
        j = int(args[args.index("-j") + 1])
        del args[args.index("-j"): args.index("-j") + 2]
    only = None
    if "--checks" in args:
        only = set(args[args.index("--checks") + 1].split(","))
        del args[args.index("--checks"): args.index("--checks") + 2]
    jobs = []
    for d in sorted(glob.glob(os.path.join(VERIF, "seeded", "C*"))):
        seed = os.path.basename(d)
        if args and seed not in args:
            continue
        mp = os.path.join(d, "meta.json")
        if not os.path.exists(mp):
            continue
        m = json.load(open(mp))
        for check, rc in m["checks_run_against_it"].items():
            if rc == 1 and (only is None or check in only):
                jobs.append((seed, check))
    bad = 0
    with ThreadPoolExecutor(j) as ex:
        for seed, check, rc, line in ex.map(one, jobs):
            ok = rc == 0                      # run_mutant exits 0 iff the check exited 1 on the changed tree
            bad += 0 if ok else 1
            print("%-6s %-4s %s  %s" % (seed, check, "detected" if ok else "NOT DETECTED", line), flush=True)
    print("%d jobs, %d not detected" % (len(jobs), bad))
    return 1 if bad else 0


sys.exit(main())
