#!/venv/bin/python
"""usage: selftest/mkmeta.py <seed id> <Cxx> <what breaks> <what it needs>: writes seeded/<id>/meta.json from verify_result.json"""
import json, sys
seed, prop, breaks, needs = sys.argv[1:5]
vr = json.load(open("/verif/seeded/%s/verify_result.json" % seed))
meta = {"property": prop, "breaks": breaks, "needs_to_manifest": needs,
        "author": "independent sub-agent given only the property text and a scratch worktree",
        "confirmed": {"demo_unchanged_exit": vr["demo_unchanged"]["exit"], "demo_changed_exit": vr["demo_changed"]["exit"],
                      "repo_tests_with_change": vr.get("tests_with_change")},
        "checks_run_against_it": {c: v["exit"] for c, v in vr["checks"].items()},
        "first_violation": {c: v["first"][:1] for c, v in vr["checks"].items()},
        "what_i_ran": "selftest/verify_seed.py seeded/%s %s --tests ... --checks ... (scratch copies under /tmp, removed afterwards)" % (seed, prop)}
json.dump(meta, open("/verif/seeded/%s/meta.json" % seed, "w"), indent=1)
print(seed, meta["confirmed"]["demo_unchanged_exit"], meta["confirmed"]["demo_changed_exit"], meta["checks_run_against_it"])
