#!/venv/bin/python
"""Apply a patch to a scratch copy of the repository sources (outside /repo and /verif), run checks
against it with VERIF_REPO pointing there, report exit codes, remove the copy.

usage: selftest/run_mutant.py <patch.diff> <Cxx> [<Cyy> ...] [--tier quick]
Exit 0 iff every listed check exits 1 (mutant detected)."""
import os
import shutil
import subprocess
import sys
import tempfile

VERIF = os.path.dirname(os.path.dirname(os.path.abspath(__file__)))


def main():
    args = [a for a in sys.argv[1:] if not a.startswith("--")]
    tier = "quick"
    if "--tier" in sys.argv:
        tier = sys.argv[sys.argv.index("--tier") + 1]
        args = [a for a in args if a != tier]
    patch, checks = os.path.abspath(args[0]), args[1:]
    scratch = tempfile.mkdtemp(prefix="ginjax-mut-", dir="/tmp")
    try:
        shutil.copytree("/repo/src", os.path.join(scratch, "src"))
        for extra in ("tests",):
            if os.path.isdir(os.path.join("/repo", extra)):
                shutil.copytree(os.path.join("/repo", extra), os.path.join(scratch, extra))
        p = subprocess.run(["patch", "-p1", "-s", "-i", patch], cwd=scratch, capture_output=True, text=True)
        if p.returncode != 0:
            print("patch failed:", p.stdout, p.stderr)
            return 2
        env = dict(os.environ, VERIF_REPO=scratch, VERIF_EVIDENCE_DIR=os.path.join(scratch, "evidence"),
                   VERIF_REPLAY_DIR=os.path.join(scratch, "replay"))
        ok = True
        for c in checks:
            r = subprocess.run([os.path.join(VERIF, "bin", "check"), c, "--tier", tier], env=env, capture_output=True, text=True)
            lines = [l for l in r.stdout.splitlines() if l.startswith(("VIOLATION", "KNOWN", "  detail", c))]
            print("== %s on %s: exit %d" % (c, os.path.basename(patch), r.returncode))
            for l in lines[:6] + lines[-1:]:
                print("   ", l[:300])
            if r.returncode == 2:
                print(r.stdout[-1500:], r.stderr[-1500:])
            ok = ok and r.returncode == 1
        return 0 if ok else 1
    finally:
        shutil.rmtree(scratch, ignore_errors=True)


if __name__ == "__main__":
    sys.exit(main())
